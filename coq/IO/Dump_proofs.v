From Coq Require Import List ZArith Bool Lia.
From DF Require Import Base.Str Base.Str_proofs Base.ListX Base.Value IO.Dump.
Import ListNotations.
Open Scope Z_scope.

(* ================= output directory ================= *)
Lemma od_get_set_same o p b : od_get (od_set o p b) p = Some b.
Proof.
  induction o as [|[a b'] o IH]; simpl; [rewrite str_eqb_refl; reflexivity|].
  destruct (str_eqb p a) eqn:E; simpl; rewrite E; [reflexivity|exact IH].
Qed.

Lemma od_get_set_other o p q b : q <> p -> od_get (od_set o p b) q = od_get o q.
Proof.
  intros N. apply str_eqb_neq in N. induction o as [|[a b'] o IH]; simpl; [rewrite N; reflexivity|].
  destruct (str_eqb p a) eqn:E; simpl.
  - apply str_eqb_eq in E. subst a. rewrite N. reflexivity.
  - destruct (str_eqb q a); [reflexivity|exact IH].
Qed.

Definition touches (p : str) (op : dop) : bool :=
  match op with OutOpen q | OutChunk q _ | OutClose q => str_eqb q p | _ => false end.

Lemma apply_untouched o op p : touches p op = false -> od_get (apply_dop o op) p = od_get o p.
Proof.
  destruct op; simpl; intros H; try reflexivity; apply od_get_set_other; apply str_eqb_neq;
    rewrite str_eqb_sym; exact H.
Qed.

Lemma run_untouched ops : forall o p, forallb (fun op => negb (touches p op)) ops = true ->
  od_get (run_dops ops o) p = od_get o p.
Proof.
  induction ops as [|op ops IH]; intros o p H; simpl in *; [reflexivity|].
  apply andb_true_iff in H as [H1 H2]. apply negb_true_iff in H1.
  unfold run_dops in *. simpl. rewrite IH by exact H2. apply apply_untouched, H1.
Qed.

(* a copy leaves the complete bytes at the destination, whatever was there *)
Lemma chunks_append p chunks : forall o c,
  od_get o p = Some c -> od_get (run_dops (map (OutChunk p) chunks) o) p = Some (c ++ concat chunks).
Proof.
  induction chunks as [|b bs IH]; intros o c H; simpl; [rewrite app_nil_r; exact H|].
  unfold run_dops in *. simpl. rewrite (IH _ (c ++ b)).
  - rewrite <- app_assoc. reflexivity.
  - rewrite H. apply od_get_set_same.
Qed.

Lemma copy_complete p chunks o : od_get (run_dops (copy_ops p chunks) o) p = Some (concat chunks).
Proof.
  unfold copy_ops, run_dops. simpl. rewrite fold_left_app. simpl.
  pose proof (chunks_append p chunks (od_set o p []) [] (od_get_set_same o p [])) as H.
  unfold run_dops in H. exact H.
Qed.

Lemma run_app a b o : run_dops (a ++ b) o = run_dops b (run_dops a o).
Proof. unfold run_dops. apply fold_left_app. Qed.

Lemma res_ops_complete t r o : od_get (run_dops (res_ops t r) o) (d_path r) = Some (d_data r).
Proof.
  unfold res_ops.
  change (TmpCreate t :: map (TmpWrite t) (d_chunks r) ++ [TmpClose t] ++ copy_ops (d_path r) (d_chunks r) ++ [TmpUnlink t])
    with ((TmpCreate t :: map (TmpWrite t) (d_chunks r)) ++ [TmpClose t] ++ copy_ops (d_path r) (d_chunks r) ++ [TmpUnlink t]).
  rewrite run_app, run_app, run_app.
  rewrite run_untouched by reflexivity. apply copy_complete.
Qed.

Lemma res_ops_untouched t r p : p <> d_path r -> forallb (fun op => negb (touches p op)) (res_ops t r) = true.
Proof.
  intros N. assert (E : str_eqb (d_path r) p = false) by (apply str_eqb_neq; intros X; apply N; symmetry; exact X).
  apply forallb_forall. intros op Hop. unfold res_ops, copy_ops in Hop. simpl in Hop.
  repeat (rewrite in_app_iff in Hop; simpl in Hop).
  repeat match goal with
         | H : _ \/ _ |- _ => destruct H as [H|H]
         | H : In _ (map _ _) |- _ => apply in_map_iff in H as [? [<- _]]
         | H : False |- _ => destruct H
         end; subst; simpl; rewrite ?E; reflexivity.
Qed.

Lemma all_res_untouched rs : forall t p, ~ In p (map d_path rs) ->
  forallb (fun op => negb (touches p op)) (all_res_ops t rs) = true.
Proof.
  induction rs as [|r rs IH]; intros t p N; simpl; [reflexivity|].
  rewrite forallb_app. apply andb_true_iff. split.
  - apply res_ops_untouched. intros E. apply N. left. symmetry. exact E.
  - apply IH. intros X. apply N. right. exact X.
Qed.

(* after the resource part every data file is complete *)
Lemma all_res_complete rs : forall t o r,
  NoDup (map d_path rs) -> In r rs -> od_get (run_dops (all_res_ops t rs) o) (d_path r) = Some (d_data r).
Proof.
  induction rs as [|r0 rs IH]; intros t o r ND Hin; [destruct Hin|].
  simpl. unfold run_dops. rewrite fold_left_app. fold (run_dops (res_ops t r0) o).
  fold (run_dops (all_res_ops (S t) rs) (run_dops (res_ops t r0) o)).
  inversion ND as [|? ? Hn ND']; subst. destruct Hin as [->|Hin].
  - rewrite run_untouched by (apply all_res_untouched; exact Hn). apply res_ops_complete.
  - apply IH; assumption.
Qed.

(* ================= C19 ================= *)
(* Whenever datapackage.json exists at all after a kill -- complete or not -- every
   data file it lists is complete. *)
Theorem descriptor_present_implies_files desc_path rs desc_chunks k r :
  NoDup (map d_path rs) -> ~ In desc_path (map d_path rs) -> In r rs ->
  od_get (dump_crash desc_path rs desc_chunks k) desc_path <> None ->
  od_get (dump_crash desc_path rs desc_chunks k) (d_path r) = Some (d_data r).
Proof.
  intros ND Nd Hin Hpres. unfold dump_crash, dump_ops in *.
  set (A := all_res_ops 0 rs) in *. set (B := res_ops (length rs) {| d_path := desc_path; d_chunks := desc_chunks |}) in *.
  rewrite firstn_app in *. unfold run_dops in *. rewrite fold_left_app in *.
  destruct (Nat.le_gt_cases k (length A)) as [L|G].
  - (* still inside the resource part: the descriptor cannot exist *)
    exfalso. apply Hpres.
    replace (k - length A)%nat with O by lia. simpl.
    pose proof (run_untouched (firstn k A) [] desc_path) as U. unfold run_dops in U. rewrite U; [reflexivity|].
    apply forallb_forall. intros op Hop.
    pose proof (all_res_untouched rs 0 desc_path Nd) as F. rewrite forallb_forall in F. apply F.
    eapply firstn_In. exact Hop.
  - rewrite (firstn_all2 A) by lia.
    pose proof (run_untouched (firstn (k - length A) B) (fold_left apply_dop A []) (d_path r)) as U.
    unfold run_dops in U. rewrite U.
    + pose proof (all_res_complete rs 0 [] r ND Hin) as C. unfold run_dops in C. exact C.
    + apply forallb_forall. intros op Hop.
      assert (F : forallb (fun op => negb (touches (d_path r) op)) B = true).
      { apply res_ops_untouched. simpl. intros E. apply Nd. rewrite <- E. apply in_map, Hin. }
      rewrite forallb_forall in F. apply F. eapply firstn_In. exact Hop.
Qed.

(* the descriptor's content is at every moment a prefix of the full descriptor text *)
Lemma chunks_prefix p chunks : forall k o c,
  od_get o p = Some c ->
  exists done, od_get (run_dops (firstn k (map (OutChunk p) chunks)) o) p = Some (c ++ done) /\ is_prefix done (concat chunks) = true.
Proof.
  induction chunks as [|b bs IH]; intros k o c H.
  - exists []. destruct k; simpl; rewrite app_nil_r; auto.
  - destruct k as [|k]; simpl.
    + exists []. rewrite app_nil_r. auto.
    + unfold run_dops in *. simpl.
      destruct (IH k (od_set o p (match od_get o p with Some c0 => c0 ++ b | None => b end)) (c ++ b)) as [dn [E P]].
      { rewrite H. apply od_get_set_same. }
      exists (b ++ dn). rewrite E, <- app_assoc. split; [reflexivity|].
      clear - P. induction b as [|x b IHb]; simpl; [exact P|]. rewrite Z.eqb_refl. exact IHb.
Qed.

(* ================= C09 ================= *)
Section S.
  Variable H : bytes -> str.

  (* the same byte string is counted, hashed and left at the recorded path *)
  Theorem resource_stats_exact desc_path rs desc_chunks r n :
    NoDup (map d_path rs) -> ~ In desc_path (map d_path rs) -> In r rs ->
    let o := run_dops (dump_ops desc_path rs desc_chunks) [] in
    let s := stat_of H r n in
    exists data, od_get o (rs_path s) = Some data /\ rs_bytes s = Z.of_nat (length data) /\ rs_hash s = H data.
  Proof.
    intros ND Nd Hin o s. exists (d_data r). split; [|split; reflexivity].
    unfold o, s, dump_ops. simpl. unfold run_dops. rewrite fold_left_app.
    pose proof (run_untouched (res_ops (length rs) {| d_path := desc_path; d_chunks := desc_chunks |})
                              (fold_left apply_dop (all_res_ops 0 rs) []) (d_path r)) as U.
    unfold run_dops in U. rewrite U.
    - pose proof (all_res_complete rs 0 [] r ND Hin) as C. unfold run_dops in C. exact C.
    - apply res_ops_untouched. simpl. intros E. apply Nd. rewrite <- E. apply in_map, Hin.
  Qed.

  (* dumping the same data twice gives identical hashes *)
  Theorem hash_deterministic r r' n : d_data r = d_data r' -> rs_hash (stat_of H r n) = rs_hash (stat_of H r' n).
  Proof. intros E. simpl. rewrite E. reflexivity. Qed.

  Lemma totals_acc stats : forall a b,
    fold_left (fun acc s => (fst acc + rs_bytes s, snd acc + rs_rows s)) stats (a, b)
    = (a + fold_right Z.add 0 (map rs_bytes stats), b + fold_right Z.add 0 (map rs_rows stats)).
  Proof.
    induction stats as [|s stats IH]; intros a b; simpl; [f_equal; lia|].
    rewrite IH. f_equal; lia.
  Qed.

  (* package totals are the sums over resources *)
  Theorem totals_are_sums stats :
    totals stats = (fold_right Z.add 0 (map rs_bytes stats), fold_right Z.add 0 (map rs_rows stats)).
  Proof. unfold totals. rewrite totals_acc. reflexivity. Qed.
End S.

(* dotted counter names address nested objects *)
Lemma jt_get_set_same l k v : jt_get (jt_set l k v) k = Some v.
Proof.
  induction l as [|[a b] l IH]; simpl; [rewrite str_eqb_refl; reflexivity|].
  destruct (str_eqb k a) eqn:E; simpl; rewrite E; [reflexivity|exact IH].
Qed.

Theorem get_set_attr path : forall obj v, path <> [] -> get_attr (set_attr obj path v) path = Some v.
Proof.
  induction path as [|k rest IH]; intros obj v N; [contradiction|].
  destruct rest as [|k2 rest].
  - simpl. apply jt_get_set_same.
  - cbn [set_attr get_attr]. rewrite jt_get_set_same. apply IH. discriminate.
Qed.

Theorem inc_attr_adds obj path n : path <> [] ->
  get_attr (inc_attr obj path n) path
  = Some (JTInt ((match get_attr obj path with Some (JTInt z) => z | _ => 0 end) + n)).
Proof. intros N. unfold inc_attr. apply get_set_attr, N. Qed.
