(* C20: dump_to_sql leaves the table in the state its mode prescribes. *)
From Coq Require Import List ZArith Bool.
From DF Require Import Base.Str Base.Value Proc.RowOps IO.Sql IO.Sql_proofs IO.SqlKeys_proofs Base.PyEq_proofs.
Import ListNotations.
Open Scope Z_scope.

(* rewrite: exactly the dumped rows; append: the previous rows plus the dumped rows -- for every
   batch size (the insert buffer is invisible) *)
Theorem C20_rewrite : forall ub fp bs t rows, w_table (impl_dump Rewrite ub fp bs t rows) = spec_dump Rewrite t rows.
Proof. exact rewrite_spec. Qed.
Print Assumptions C20_rewrite.

Theorem C20_append : forall ub fp bs t rows, w_table (impl_dump Append ub fp bs t rows) = spec_dump Append t rows.
Proof. exact append_spec. Qed.
Print Assumptions C20_append.

(* update without the Bloom filter: every row attempts the UPDATE first *)
Theorem C20_update_no_filter : forall ks fp bs t rows,
  w_table (impl_dump (Update ks) false fp bs t rows) = spec_dump (Update ks) t rows.
Proof. exact update_spec_nobloom. Qed.
Print Assumptions C20_update_no_filter.

(* update with the Bloom filter: for EVERY false-positive behaviour fp of the filter (any predicate
   that depends on the key only), every batch size and every existing table, the result is the
   fold of upsert: one row per key holding the most recently dumped values.  Hypotheses: Python
   equality of key tuples is an equivalence on the keys in play; rows are dicts (unique keys)
   carrying all key columns. *)
Theorem C20_update_with_filter : forall ks fp bs init,
  (forall a, key_eq a a = true) -> (forall a b, key_eq a b = key_eq b a) ->
  (forall a b c, key_eq a b = true -> key_eq b c = true -> key_eq a c = true) ->
  (forall a b, key_eq (keyof ks a) (keyof ks b) = true -> fp a = fp b) ->
  forall rows, init = init -> (forall r, In r rows -> row_ok ks r) ->
  w_table (write_all (Some ks) true fp bs init init rows) = fold_left (upsert ks) rows init.
Proof. exact update_spec_bloom. Qed.
Print Assumptions C20_update_with_filter.

(* ... with the equivalence of key equality proved (Base/PyEq_proofs.v), only the filter's
   key-dependence and the shape of the rows remain as hypotheses *)
Theorem C20_update_with_filter_unconditional : forall ks fp bs init,
  (forall a b, key_eq (keyof ks a) (keyof ks b) = true -> fp a = fp b) ->
  forall rows, (forall r, In r rows -> row_ok ks r) ->
  w_table (write_all (Some ks) true fp bs init init rows) = fold_left (upsert ks) rows init.
Proof.
  intros ks fp bs init Hfp rows OK.
  apply update_spec_bloom; [exact key_eq_refl|exact key_eq_sym|exact key_eq_trans|exact Hfp|reflexivity|exact OK].
Qed.
Print Assumptions C20_update_with_filter_unconditional.

(* the whole dump in update mode, for the exact filter (no false positives) *)
Theorem C20_update : forall ks ub bs t rows,
  (forall r, In r rows -> row_ok ks r) ->
  w_table (impl_dump (Update ks) ub (fun _ => false) bs t rows) = spec_dump (Update ks) t rows.
Proof.
  intros ks ub bs t rows OK. destruct ub.
  - unfold impl_dump, spec_dump. apply C20_update_with_filter_unconditional; [reflexivity|exact OK].
  - apply update_spec_nobloom.
Qed.
Print Assumptions C20_update.

(* update mode keeps "at most one row per key": a table with that property still has it after any update dump, whatever
   the dumped rows (several rows with the same key inside one dump included), for every insert-buffer size, with the
   filter off or exact; a table created by the dump (empty before) therefore ends with one row per distinct key *)
Theorem C20_update_one_row_per_key : forall ks ub bs t rows,
  (forall r, In r rows -> row_ok ks r) ->
  (forall i j x y, nth_error t i = Some x -> nth_error t j = Some y -> key_match ks x y = true -> i = j) ->
  forall i j x y,
    let t' := w_table (impl_dump (Update ks) ub (fun _ => false) bs t rows) in
    nth_error t' i = Some x -> nth_error t' j = Some y -> key_match ks x y = true -> i = j.
Proof. exact impl_update_one_per_key. Qed.
Print Assumptions C20_update_one_row_per_key.

Theorem C20_update_creates_one_row_per_key : forall ks ub bs rows,
  (forall r, In r rows -> row_ok ks r) ->
  one_per_key ks (w_table (impl_dump (Update ks) ub (fun _ => false) bs [] rows)).
Proof. intros ks ub bs rows OK. apply impl_update_one_per_key; [exact OK|apply one_per_key_nil]. Qed.
Print Assumptions C20_update_creates_one_row_per_key.

(* any sequence of dumps: the table is the fold of the per-mode specification *)
Theorem C20_history : forall h,
  (forall d t, w_table (impl_dump (dc_mode d) (dc_bloom d) (fun _ => false) (dc_batch d) t (dc_rows d))
               = spec_dump (dc_mode d) t (dc_rows d)) ->
  forall t, run_history h t = spec_history h t.
Proof. intros h H. exact (history_step H h). Qed.
Print Assumptions C20_history.

(* rows continue downstream in input order (append / rewrite) *)
Theorem C20_rows_continue_in_order : forall ub fp bs init rows s,
  map fst (w_out (flush (fold_left (write_row None ub fp bs init) rows s)))
  = map fst (w_out s) ++ w_buffer s ++ rows.
Proof. exact out_rows_nokeys. Qed.
Print Assumptions C20_rows_continue_in_order.

From Coq Require Import String.
Local Open Scope string_scope.
Example C20_nonvacuous :
  let r k v := [(s "k", VInt k); (s "v", VStr (s v))] in
  w_table (impl_dump (Update [s "k"]) true (fun _ => false) 1 [r 1 "old"; r 2 "keep"] [r 1 "new"; r 3 "a"; r 3 "b"])
  = [r 1 "new"; r 2 "keep"; r 3 "b"].
Proof. vm_compute. reflexivity. Qed.
