(* The sort key of a numeric field is the hex of the sign-flipped binary64 bit image.  For
   exactly representable numbers (mantissa below 2^53) the bit image orders like the numbers. *)
From Coq Require Import List ZArith Bool Lia.
From DF Require Import Base.Str Base.Value Proc.RowOps Proc.Sort Proc.Sort_proofs.
Import ListNotations.
Open Scope Z_scope.

Definition P52 : Z := 4503599627370496.       (* 2^52 *)
Lemma P52_eq : 2 ^ 52 = P52. Proof. reflexivity. Qed.

(* bit image of the normalised number N * 2^(E-52), 2^52 <= N < 2^53 *)
Definition nbits (N E : Z) : Z := (E + 1023) * P52 + (N - P52).

Lemma nbits_lex N E N' E' :
  P52 <= N < 2 * P52 -> P52 <= N' < 2 * P52 ->
  (nbits N E < nbits N' E' <-> E < E' \/ (E = E' /\ N < N')).
Proof. unfold nbits, P52. intros H H'. split; intros; nia. Qed.

Lemma scale_lt N N' P p d : 0 < P -> P <= N < 2 * P -> P <= N' -> 0 < p -> 1 <= d -> N * p < N' * (d * (p * 2)).
Proof.
  intros HP HN HN' Hp Hd.
  assert (A : N * p < 2 * P * p) by (apply Z.mul_lt_mono_pos_r; lia).
  assert (B : P <= N' * d) by nia.
  assert (C : 2 * P * p <= N' * (d * (p * 2))).
  { replace (N' * (d * (p * 2))) with ((N' * d) * (2 * p)) by ring. replace (2 * P * p) with (P * (2 * p)) by ring.
    apply Z.mul_le_mono_nonneg_r; lia. }
  lia.
Qed.

(* the order of the values: compare after scaling both to integers *)
Lemma scaled_lex N a N' b :
  P52 <= N < 2 * P52 -> P52 <= N' < 2 * P52 -> 0 <= a -> 0 <= b ->
  (N * 2 ^ a < N' * 2 ^ b <-> a < b \/ (a = b /\ N < N')).
Proof.
  intros H H' Ha Hb.
  assert (Pa : 0 < 2 ^ a) by (apply Z.pow_pos_nonneg; lia).
  assert (Pb : 0 < 2 ^ b) by (apply Z.pow_pos_nonneg; lia).
  destruct (Z.lt_trichotomy a b) as [L|[E|G]].
  - split; [intros _; left; exact L|intros _].
    replace b with ((b - a - 1) + (a + 1)) by lia. rewrite Z.pow_add_r by lia.
    rewrite (Z.pow_add_r 2 a 1) by lia. change (2 ^ 1) with 2.
    assert (Pd : 0 < 2 ^ (b - a - 1)) by (apply Z.pow_pos_nonneg; lia).
    apply (scale_lt N N' P52); unfold P52 in *; lia.
  - subst b. split.
    + intros X. right. split; [reflexivity|]. nia.
    + intros [X|[_ X]]; [lia|nia].
  - split; [|intros [X|[X _]]; lia].
    intros X. exfalso.
    replace a with ((a - b - 1) + (b + 1)) in X by lia. rewrite Z.pow_add_r in X by lia.
    rewrite (Z.pow_add_r 2 b 1) in X by lia. change (2 ^ 1) with 2 in X.
    assert (Pd : 0 < 2 ^ (a - b - 1)) by (apply Z.pow_pos_nonneg; lia).
    assert (Y : N' * 2 ^ b < N * (2 ^ (a - b - 1) * (2 ^ b * 2))) by (apply (scale_lt N' N P52); unfold P52 in *; lia).
    lia.
Qed.

(* normalisation of a positive mantissa below 2^53 *)
Lemma norm_range m : 0 < m < 2 * P52 -> P52 <= m * 2 ^ (52 - Z.log2 m) < 2 * P52 /\ 0 <= Z.log2 m <= 52.
Proof.
  intros H. destruct (Z.log2_spec m) as [L1 L2]; [lia|].
  assert (K0 : 0 <= Z.log2 m) by apply Z.log2_nonneg.
  assert (K : Z.log2 m <= 52).
  { destruct (Z_le_gt_dec (Z.log2 m) 52); [assumption|].
    assert (2 ^ 53 <= 2 ^ Z.log2 m) by (apply Z.pow_le_mono_r; lia). change (2 ^ 53) with (2 * P52) in H0. lia. }
  split; [|lia].
  assert (E : 2 ^ 52 = 2 ^ Z.log2 m * 2 ^ (52 - Z.log2 m)) by (rewrite <- Z.pow_add_r by lia; f_equal; lia).
  assert (Pd : 0 < 2 ^ (52 - Z.log2 m)) by (apply Z.pow_pos_nonneg; lia).
  rewrite <- P52_eq. rewrite E. rewrite Z.pow_succ_r in L2 by lia. split; nia.
Qed.

Lemma dbl_bits_norm m e : 0 < m < 2 * P52 -> dbl_bits m e = nbits (m * 2 ^ (52 - Z.log2 m)) (Z.log2 m + e).
Proof.
  intros H. destruct (norm_range m H) as [_ [K0 K]]. unfold dbl_bits, nbits.
  destruct (Z.log2 m <=? 52) eqn:C; [|apply Z.leb_gt in C; lia]. rewrite P52_eq. reflexivity.
Qed.

(* Main lemma, positives: for any common scale S below all the exponents involved, the scaled
   integers (i.e. the real values) compare like the bit images. *)
Theorem dbl_bits_monotone m e m' e' S :
  0 < m < 2 * P52 -> 0 < m' < 2 * P52 ->
  S <= e -> S <= e' -> S <= Z.log2 m + e - 52 -> S <= Z.log2 m' + e' - 52 ->
  (m * 2 ^ (e - S) < m' * 2 ^ (e' - S) <-> dbl_bits m e < dbl_bits m' e').
Proof.
  intros H H' S1 S2 S3 S4.
  destruct (norm_range m H) as [R [K0 K]]. destruct (norm_range m' H') as [R' [K0' K']].
  rewrite !dbl_bits_norm by assumption. rewrite nbits_lex by assumption.
  set (N := m * 2 ^ (52 - Z.log2 m)) in *. set (N' := m' * 2 ^ (52 - Z.log2 m')) in *.
  assert (V : m * 2 ^ (e - S) = N * 2 ^ (Z.log2 m + e - 52 - S)).
  { unfold N. rewrite <- Z.mul_assoc, <- Z.pow_add_r by lia. f_equal. f_equal. lia. }
  assert (V' : m' * 2 ^ (e' - S) = N' * 2 ^ (Z.log2 m' + e' - 52 - S)).
  { unfold N'. rewrite <- Z.mul_assoc, <- Z.pow_add_r by lia. f_equal. f_equal. lia. }
  rewrite V, V'. rewrite scaled_lex by (try assumption; lia). split; intros [X|[X Y]]; [left; lia|right; split; [lia|exact Y]|left; lia|right; split; [lia|exact Y]].
Qed.

(* bit images stay below 2^63 for exponents in the binary64 range *)
Lemma dbl_bits_range m e : 0 < m < 2 * P52 -> -1022 <= Z.log2 m + e <= 1023 -> 0 < dbl_bits m e < 2 ^ 63.
Proof.
  intros H R. destruct (norm_range m H) as [N _]. rewrite dbl_bits_norm by exact H. unfold nbits.
  change (2 ^ 63) with (2048 * P52). unfold P52 in *. lia.
Qed.

(* the full key: negatives below zero below positives, each side in numeric order *)
Theorem num_key_monotone_pos m e m' e' S :
  0 < m < 2 * P52 -> 0 < m' < 2 * P52 ->
  S <= e -> S <= e' -> S <= Z.log2 m + e - 52 -> S <= Z.log2 m' + e' - 52 ->
  (m * 2 ^ (e - S) < m' * 2 ^ (e' - S) <-> num_key m e < num_key m' e').
Proof.
  intros H H' S1 S2 S3 S4. unfold num_key.
  destruct (m =? 0) eqn:Z1; [apply Z.eqb_eq in Z1; lia|]. destruct (m' =? 0) eqn:Z2; [apply Z.eqb_eq in Z2; lia|].
  destruct (0 <? m) eqn:P1; [|apply Z.ltb_ge in P1; lia]. destruct (0 <? m') eqn:P2; [|apply Z.ltb_ge in P2; lia].
  rewrite (dbl_bits_monotone m e m' e' S) by assumption. lia.
Qed.

Theorem num_key_monotone_neg m e m' e' S :
  0 < m < 2 * P52 -> 0 < m' < 2 * P52 ->
  S <= e -> S <= e' -> S <= Z.log2 m + e - 52 -> S <= Z.log2 m' + e' - 52 ->
  (* -m*2^e < -m'*2^e'  iff  m'*2^e' < m*2^e *)
  (m' * 2 ^ (e' - S) < m * 2 ^ (e - S) <-> num_key (- m) e < num_key (- m') e').
Proof.
  intros H H' S1 S2 S3 S4. unfold num_key.
  destruct (- m =? 0) eqn:Z1; [apply Z.eqb_eq in Z1; lia|]. destruct (- m' =? 0) eqn:Z2; [apply Z.eqb_eq in Z2; lia|].
  destruct (0 <? - m) eqn:P1; [apply Z.ltb_lt in P1; lia|]. destruct (0 <? - m') eqn:P2; [apply Z.ltb_lt in P2; lia|].
  rewrite !Z.opp_involutive. rewrite (dbl_bits_monotone m' e' m e S) by assumption. lia.
Qed.

Theorem num_key_sign_order m e m' e' :
  0 < m < 2 * P52 -> 0 < m' < 2 * P52 -> -1022 <= Z.log2 m + e <= 1023 -> -1022 <= Z.log2 m' + e' <= 1023 ->
  num_key (- m) e < num_key 0 0 /\ num_key 0 0 < num_key m' e'.
Proof.
  intros H H' R R'. pose proof (dbl_bits_range m e H R). pose proof (dbl_bits_range m' e' H' R').
  unfold num_key. simpl (0 =? 0).
  destruct (- m =? 0) eqn:Z1; [apply Z.eqb_eq in Z1; lia|]. destruct (0 <? - m) eqn:P1; [apply Z.ltb_lt in P1; lia|].
  destruct (m' =? 0) eqn:Z2; [apply Z.eqb_eq in Z2; lia|]. destruct (0 <? m') eqn:P2; [|apply Z.ltb_ge in P2; lia].
  rewrite Z.opp_involutive. lia.
Qed.

(* and the 16 hex digits order like the 64-bit key *)
Theorem hex_key_order a b : 0 <= a < 2 ^ 64 -> 0 <= b < 2 ^ 64 -> str_ltb (hexw 16 a) (hexw 16 b) = (a <? b).
Proof.
  intros Ha Hb. change (2 ^ 64) with (16 ^ Z.of_nat 16) in *. destruct (hexw_order 16 a b Ha Hb) as [O _]. exact O.
Qed.

(* ---------- all signs together ---------- *)
(* a canonical binary64 number: zero, or a mantissa below 2^53 with a normal exponent *)
Definition canon (m e : Z) : Prop :=
  m = 0 \/ (0 < Z.abs m < 2 * P52 /\ -1022 <= Z.log2 (Z.abs m) + e <= 1023).

(* the scale S lies below every exponent involved (no constraint from a zero) *)
Definition scale_ok (S m e : Z) : Prop := m = 0 \/ (S <= e /\ S <= Z.log2 (Z.abs m) + e - 52).

Lemma num_key_zero e : num_key 0 e = 2 ^ 63.
Proof. reflexivity. Qed.

Lemma num_key_pos_range m e : 0 < m < 2 * P52 -> -1022 <= Z.log2 m + e <= 1023 -> 2 ^ 63 < num_key m e < 2 ^ 64.
Proof.
  intros H R. pose proof (dbl_bits_range m e H R) as B. unfold num_key.
  destruct (m =? 0) eqn:Z1; [apply Z.eqb_eq in Z1; lia|]. destruct (0 <? m) eqn:P1; [|apply Z.ltb_ge in P1; lia].
  change (2 ^ 64) with (2 ^ 63 + 2 ^ 63). lia.
Qed.

Lemma num_key_neg_range m e : 0 < m < 2 * P52 -> -1022 <= Z.log2 m + e <= 1023 -> 0 <= num_key (- m) e < 2 ^ 63.
Proof.
  intros H R. pose proof (dbl_bits_range m e H R) as B. unfold num_key.
  destruct (- m =? 0) eqn:Z1; [apply Z.eqb_eq in Z1; lia|]. destruct (0 <? - m) eqn:P1; [apply Z.ltb_lt in P1; lia|].
  rewrite Z.opp_involutive. lia.
Qed.

Lemma pow2_pos a : 0 <= a -> 0 < 2 ^ a.
Proof. intros H. apply Z.pow_pos_nonneg; lia. Qed.

(* the key orders exactly like the numbers, whatever their signs *)
Theorem num_key_order_all m e m' e' S :
  canon m e -> canon m' e' -> scale_ok S m e -> scale_ok S m' e' ->
  S <= e -> S <= e' ->
  (m * 2 ^ (e - S) < m' * 2 ^ (e' - S) <-> num_key m e < num_key m' e').
Proof.
  intros C C' K K' SE SE'.
  assert (Pa : 0 < 2 ^ (e - S)) by (apply pow2_pos; lia).
  assert (Pb : 0 < 2 ^ (e' - S)) by (apply pow2_pos; lia).
  destruct (Z.lt_trichotomy m 0) as [N|[Z0|P]]; destruct (Z.lt_trichotomy m' 0) as [N'|[Z0'|P']].
  - (* negative, negative *)
    destruct C as [C|[C1 C2]]; [lia|]. destruct C' as [C'|[C1' C2']]; [lia|].
    destruct K as [K|[K1 K2]]; [lia|]. destruct K' as [K'|[K1' K2']]; [lia|].
    rewrite (Z.abs_neq m) in * by lia. rewrite (Z.abs_neq m') in * by lia.
    pose proof (num_key_monotone_neg (- m) e (- m') e' S C1 C1' K1 K1' K2 K2') as H.
    rewrite !Z.opp_involutive in H. rewrite <- H. rewrite !Z.mul_opp_l. lia.
  - (* negative, zero *)
    subst m'. destruct C as [C|[C1 C2]]; [lia|]. rewrite (Z.abs_neq m) in * by lia.
    pose proof (num_key_neg_range (- m) e C1 C2) as R. rewrite Z.opp_involutive in R. rewrite num_key_zero.
    split; [intros _; lia|intros _; nia].
  - (* negative, positive *)
    destruct C as [C|[C1 C2]]; [lia|]. destruct C' as [C'|[C1' C2']]; [lia|].
    rewrite (Z.abs_neq m) in * by lia. rewrite (Z.abs_eq m') in * by lia.
    pose proof (num_key_neg_range (- m) e C1 C2) as R. rewrite Z.opp_involutive in R.
    pose proof (num_key_pos_range m' e' C1' C2') as R'.
    split; [intros _; lia|intros _; nia].
  - (* zero, negative *)
    subst m. destruct C' as [C'|[C1' C2']]; [lia|]. rewrite (Z.abs_neq m') in * by lia.
    pose proof (num_key_neg_range (- m') e' C1' C2') as R. rewrite Z.opp_involutive in R. rewrite num_key_zero.
    split; [intros H; nia|intros H; lia].
  - subst m m'. rewrite !num_key_zero. lia.
  - subst m. destruct C' as [C'|[C1' C2']]; [lia|]. rewrite (Z.abs_eq m') in * by lia.
    pose proof (num_key_pos_range m' e' C1' C2') as R'. rewrite num_key_zero.
    split; [intros _; lia|intros _; nia].
  - (* positive, negative *)
    destruct C as [C|[C1 C2]]; [lia|]. destruct C' as [C'|[C1' C2']]; [lia|].
    rewrite (Z.abs_eq m) in * by lia. rewrite (Z.abs_neq m') in * by lia.
    pose proof (num_key_pos_range m e C1 C2) as R.
    pose proof (num_key_neg_range (- m') e' C1' C2') as R'. rewrite Z.opp_involutive in R'.
    split; [intros H; nia|intros H; lia].
  - subst m'. destruct C as [C|[C1 C2]]; [lia|]. rewrite (Z.abs_eq m) in * by lia.
    pose proof (num_key_pos_range m e C1 C2) as R. rewrite num_key_zero.
    split; [intros H; nia|intros H; lia].
  - (* positive, positive *)
    destruct C as [C|[C1 C2]]; [lia|]. destruct C' as [C'|[C1' C2']]; [lia|].
    destruct K as [K|[K1 K2]]; [lia|]. destruct K' as [K'|[K1' K2']]; [lia|].
    rewrite (Z.abs_eq m) in * by lia. rewrite (Z.abs_eq m') in * by lia.
    apply num_key_monotone_pos; assumption.
Qed.

Lemma num_key_range m e : canon m e -> 0 <= num_key m e < 2 ^ 64.
Proof.
  intros [->|[C1 C2]]; [rewrite num_key_zero; split; [lia|reflexivity]|].
  destruct (Z.lt_trichotomy m 0) as [N|[Z0|P]].
  - rewrite (Z.abs_neq m) in * by lia. pose proof (num_key_neg_range (- m) e C1 C2) as R.
    rewrite Z.opp_involutive in R. change (2 ^ 64) with (2 ^ 63 + 2 ^ 63). lia.
  - subst. simpl in C1. lia.
  - rewrite (Z.abs_eq m) in * by lia. pose proof (num_key_pos_range m e C1 C2). lia.
Qed.

(* the text key of a numeric field (16 hex digits) compares like the numbers *)
Theorem numeric_text_key_order m e m' e' S :
  canon m e -> canon m' e' -> scale_ok S m e -> scale_ok S m' e' -> S <= e -> S <= e' ->
  (str_ltb (hexw 16 (num_key m e)) (hexw 16 (num_key m' e')) = true <-> m * 2 ^ (e - S) < m' * 2 ^ (e' - S)).
Proof.
  intros C C' K K' SE SE'.
  rewrite (hex_key_order _ _ (num_key_range m e C) (num_key_range m' e' C')).
  rewrite Z.ltb_lt. symmetry. apply num_key_order_all; assumption.
Qed.
