.PHONY: setup coq clean
setup: coq
coq:
	cd coq && /venv/bin/python ../harness/gen_consts.py && coq_makefile -f _CoqProject -o Makefile.coq && timeout 3000 $(MAKE) -f Makefile.coq -j16
clean:
	cd coq && $(MAKE) -f Makefile.coq clean || true

# independent re-check (coqchk) of every compiled property file and everything it depends on
# (about 1 min), plus the textual audit for forbidden declarations; the output is kept in audit/
.PHONY: audit
audit: coq
	mkdir -p audit
	cd coq && timeout 3000 coqchk -silent -o -Q . DF $$(ls Props/*.vo | sed 's#/#.#;s#\.vo$$##;s#^#DF.#') 2>&1 | tee ../audit/coqchk.txt
	(grep -rnE '\b(Admitted|admit|Axiom|Parameter|Conjecture)\b|Admit Obligations|Unset Guard|Unset Positivity|Unset Universe|bypass_check|type-in-type|impredicative-set' coq --include='*.v' --include='_CoqProject' || echo 'no forbidden declaration') | tee audit/forbidden.txt
