(* list helpers shared by the processor proofs *)
From Coq Require Import List Lia.
Import ListNotations.

Inductive subseq {A} : list A -> list A -> Prop :=
| ss_nil : subseq [] []
| ss_skip x l l' : subseq l l' -> subseq l (x :: l')
| ss_keep x l l' : subseq l l' -> subseq (x :: l) (x :: l').

Lemma subseq_refl {A} (l : list A) : subseq l l.
Proof. induction l; constructor; assumption. Qed.

Lemma subseq_In {A} (l l' : list A) x : subseq l l' -> In x l -> In x l'.
Proof. induction 1 as [|y l l' S IH|y l l' S IH]; simpl; intros Hin; auto. destruct Hin; auto. Qed.

Lemma subseq_filter {A} (f : A -> bool) l : subseq (filter f l) l.
Proof. induction l as [|x l IH]; simpl; [constructor|]. destruct (f x); constructor; exact IH. Qed.

Lemma subseq_length {A} (l l' : list A) : subseq l l' -> length l <= length l'.
Proof. induction 1; simpl; lia. Qed.

Lemma subseq_nil {A} (l : list A) : subseq [] l.
Proof. induction l; constructor; assumption. Qed.

Lemma NoDup_app_intro {A} (l1 l2 : list A) :
  NoDup l1 -> NoDup l2 -> (forall x, In x l1 -> In x l2 -> False) -> NoDup (l1 ++ l2).
Proof.
  induction l1 as [|a l1 IH]; simpl; intros H1 H2 H; [exact H2|].
  inversion H1 as [|? ? Hn Hd]; subst. constructor.
  - rewrite in_app_iff. intros [X|X]; [contradiction|]. eapply H; [left; reflexivity|exact X].
  - apply IH; [exact Hd|exact H2|]. intros x Hx1 Hx2. eapply H; [right; exact Hx1|exact Hx2].
Qed.

Lemma NoDup_app_remove_l {A} (l l' : list A) : NoDup (l ++ l') -> NoDup l'.
Proof. induction l as [|a l IH]; simpl; intros H; [exact H|]. inversion H; subst. apply IH. assumption. Qed.

Lemma NoDup_app_remove_r {A} (l l' : list A) : NoDup (l ++ l') -> NoDup l.
Proof.
  induction l as [|a l IH]; simpl; intros H; [constructor|]. inversion H as [|? ? Hn Hd]; subst.
  constructor; [intros X; apply Hn; apply in_or_app; left; exact X|apply IH, Hd].
Qed.

Lemma NoDup_app_disjoint {A} (l l' : list A) x : NoDup (l ++ l') -> In x l -> In x l' -> False.
Proof.
  induction l as [|a l IH]; simpl; intros H H1 H2; [destruct H1|].
  inversion H as [|? ? Hn Hd]; subst. destruct H1 as [->|H1].
  - apply Hn. apply in_or_app. right. exact H2.
  - eapply IH; eassumption.
Qed.

Lemma firstn_In {A} (l : list A) : forall n x, In x (firstn n l) -> In x l.
Proof.
  induction l as [|a l IH]; intros [|n] x H; simpl in *; try contradiction.
  destruct H as [->|H]; [left; reflexivity|right; eapply IH; exact H].
Qed.

Lemma app_ne_self {A} (l x : list A) : x <> [] -> l ++ x <> l.
Proof.
  intros H E. apply H. assert (L : length (l ++ x) = length l) by (rewrite E; reflexivity).
  rewrite app_length in L. destruct x as [|a x]; [reflexivity|simpl in L; lia].
Qed.
