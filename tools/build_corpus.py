#!/usr/bin/env python3
"""Builds /verif/corpus/<Cxx>/<seed id>.json from the replay files the seed matrix left under /var/tmp/seed_replays:
for every seeded change the (shrunk) generated case on which the check caught it.  The checks run the corpus cases
first on every run (harness/driver.py), so a seed stays caught when the random part of a generator changes.  A corpus
case is an ordinary generated case: on the unchanged tree it must pass like any other."""
import os, sys, json, glob
V = os.path.dirname(os.path.dirname(os.path.abspath(__file__)))
n = 0
for d in sorted(glob.glob('/var/tmp/seed_replays/C*-*')):
    sid = os.path.basename(d)
    prop = sid.split('-')[0]
    best = None
    for f in sorted(glob.glob(os.path.join(d, '*.json'))):
        r = json.load(open(f))
        if r.get('kind') == 'failing-input' and 'case' in r and not r['case'].get('witness_of'):
            if best is None or len(json.dumps(r['case'])) < len(json.dumps(best['case'])):
                best = r
    if best is None:
        continue
    if len(json.dumps(best['case'])) > 60000:
        continue
    out = os.path.join(V, 'corpus', prop)
    os.makedirs(out, exist_ok=True)
    json.dump({'case': best['case'], 'from_seed': sid, 'failure_with_the_seed': best.get('failure')}, open(os.path.join(out, sid + '.json'), 'w'), indent=1)
    n += 1
print(n, 'corpus cases')
