(* C17: filter_rows, deduplicate and unpivot neither lose nor invent data.
   Property theorems only; proofs live in Proc/RowOps_proofs.v. *)
From Coq Require Import List ZArith Bool.
From DF Require Import Base.Str Base.ListX Base.Value Proc.RowOps Proc.RowOps_proofs Base.PyEq_proofs.
Import ListNotations.

(* filter_rows emits exactly the subsequence of rows satisfying its condition *)
Theorem C17_filter_is_filter : forall cond c rows,
  (forall r, In r rows -> cond r = Ok (c r)) -> filter_loop cond rows = Ok (filter c rows).
Proof. exact filter_loop_spec. Qed.
Print Assumptions C17_filter_is_filter.

Theorem C17_filter_subsequence : forall cond rows out,
  filter_loop cond rows = Ok out -> subseq out rows.
Proof. exact filter_loop_subseq. Qed.
Print Assumptions C17_filter_subsequence.

Theorem C17_filter_error_is_condition_error : forall cond rows code,
  filter_loop cond rows = Err code -> exists r, In r rows /\ cond r = Err code.
Proof. exact filter_loop_err. Qed.
Print Assumptions C17_filter_error_is_condition_error.

(* equals / not_equals = any-of *)
Theorem C17_old_style_any_of : forall equals not_equals r,
  (forall kv, In kv (equals ++ not_equals) -> rhas r (fst kv) = true) ->
  old_style equals not_equals r =
  Ok (existsb (cond_holds false r) equals || existsb (cond_holds true r) not_equals).
Proof. exact old_style_spec. Qed.
Print Assumptions C17_old_style_any_of.

(* deduplicate: first row of each distinct key, in order *)
Theorem C17_dedup_first_occurrences : forall pk kf,
  (forall a b, key_eq a b = key_eq b a) ->
  (forall a b c, key_eq a b = true -> key_eq b c = true -> key_eq a c = true) ->
  forall rows, keyed pk kf rows -> dedup_loop pk [] rows = Ok (first_occ kf [] rows).
Proof. intros pk kf Hs Ht rows K. apply dedup_first_occurrences_sec; assumption. Qed.
Print Assumptions C17_dedup_first_occurrences.

(* ... unconditionally: Python equality of key tuples (py_eq pointwise) is proved to be an equivalence *)
Theorem C17_dedup_first_occurrences_unconditional : forall pk kf rows,
  keyed pk kf rows -> dedup_loop pk [] rows = Ok (first_occ kf [] rows).
Proof. intros pk kf rows K. apply dedup_first_occurrences_sec; [exact key_eq_trans|exact K]. Qed.
Print Assumptions C17_dedup_first_occurrences_unconditional.

Theorem C17_dedup_subsequence : forall pk kf seen rows out,
  keyed pk kf rows -> dedup_loop pk seen rows = Ok out -> subseq out rows.
Proof. exact dedup_subseq. Qed.
Print Assumptions C17_dedup_subsequence.

Theorem C17_dedup_keys_distinct : forall pk kf seen rows out,
  keyed pk kf rows -> dedup_loop pk seen rows = Ok out -> fresh_chain kf seen out.
Proof. exact dedup_fresh. Qed.
Print Assumptions C17_dedup_keys_distinct.

Theorem C17_dedup_idempotent : forall pk kf rows out,
  keyed pk kf rows -> dedup_loop pk [] rows = Ok out -> dedup_loop pk [] out = Ok out.
Proof. exact dedup_idempotent. Qed.
Print Assumptions C17_dedup_idempotent.

Theorem C17_dedup_no_pk_identity : forall rows, deduper [] rows = Ok rows.
Proof. exact deduper_no_pk. Qed.
Print Assumptions C17_dedup_no_pk_identity.

(* unpivot *)
Theorem C17_unpivot_rows_spec : forall piv keep vn rows,
  (forall r, In r rows -> has_all keep r) ->
  unpivot_rows piv keep vn rows = Ok (flat_map (fun r => map (cell_spec keep vn r) piv) rows).
Proof. exact unpivot_rows_spec. Qed.
Print Assumptions C17_unpivot_rows_spec.

Theorem C17_unpivot_cells_conserved : forall piv keep vn rows,
  map (fun o => rget0 o vn) (flat_map (fun r => map (cell_spec keep vn r) piv) rows)
  = flat_map (fun r => map (fun pf => rget0 r (fst pf)) piv) rows.
Proof. exact unpivot_cells_conserved. Qed.
Print Assumptions C17_unpivot_cells_conserved.

Theorem C17_unpivot_kept_values : forall keep vn r pf f,
  In f keep -> f <> vn -> rget0 (cell_spec keep vn r pf) f = rget0 r f.
Proof. exact cell_kept. Qed.
Print Assumptions C17_unpivot_kept_values.

Theorem C17_unpivot_fields_partitioned : forall specs fields f,
  In f fields <->
  In f (map fst (fst (unpivot_config specs fields))) \/ In f (snd (unpivot_config specs fields)).
Proof. exact unpivot_config_partition. Qed.
Print Assumptions C17_unpivot_fields_partitioned.

Theorem C17_unpivot_fields_counted : forall specs fields,
  (length (fst (unpivot_config specs fields)) + length (snd (unpivot_config specs fields)) = length fields)%nat.
Proof. exact unpivot_config_count. Qed.
Print Assumptions C17_unpivot_fields_counted.

(* non-vacuity: a concrete table meets the hypotheses *)
From Coq Require Import String.
Local Open Scope string_scope.
Example C17_nonvacuous :
  let r1 := [(s "k", VInt 1); (s "a", VStr (s "x")); (s "b", VNull)] in
  let r2 := [(s "k", VBool true); (s "a", VStr (s "y")); (s "b", VInt 2)] in
  dedup_loop [s "k"] [] [r1; r2] = Ok [r1] /\
  unpivot_model [mk_uspec [s "a"; s "b"] [(s "a", [(s "f", VStr (s "a"))]); (s "b", [(s "f", VStr (s "b"))])]]
                [s "k"; s "a"; s "b"] (s "v") [r1]
  = Ok [[(s "f", VStr (s "a")); (s "k", VInt 1); (s "v", VStr (s "x"))];
        [(s "f", VStr (s "b")); (s "k", VInt 1); (s "v", VNull)]].
Proof. vm_compute. split; reflexivity. Qed.
