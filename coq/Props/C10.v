(* C10: resource selectors mean the same thing in every processor. *)
From Coq Require Import List ZArith Bool.
From DF Require Import Base.Str Base.Value Base.Regex Base.Regex_proofs Base.Selector Base.Selector_proofs Base.Sites Gen.Consts.
Import ListNotations.
Open Scope Z_scope.

(* None selects all resources *)
Theorem C10_none_selects_all : forall names,
  exists m, resolve SAll names = Ok m /\ forall n, m n = true.
Proof. exact resolve_all. Qed.
Print Assumptions C10_none_selects_all.

(* a string selects the names it fully matches *)
Theorem C10_string_selects_fullmatch : forall r names,
  exists m, resolve (SRegex r) names = Ok m /\ forall n, m n = fullmatch r n.
Proof. exact resolve_regex. Qed.
Print Assumptions C10_string_selects_fullmatch.

(* ... and the executable matcher decides the language of the expression (the usual inductive
   relation Matches: concatenation, alternation, iteration, one admissible character), so a string
   selects exactly the names that belong to the regular expression's language *)
Theorem C10_fullmatch_is_language_membership : forall r n, fullmatch r n = true <-> Matches r n.
Proof. exact fullmatch_spec. Qed.
Print Assumptions C10_fullmatch_is_language_membership.

Theorem C10_string_selects_language : forall r names,
  exists m, resolve (SRegex r) names = Ok m /\ forall n, m n = true <-> Matches r n.
Proof. exact resolve_regex_language. Qed.
Print Assumptions C10_string_selects_language.

(* a list selects exactly the listed names *)
Theorem C10_list_selects_listed : forall l names,
  exists m, resolve (SList l) names = Ok m /\ forall n, m n = true <-> In n l.
Proof. exact resolve_list. Qed.
Print Assumptions C10_list_selects_listed.

(* an integer selects by position, negative from the end *)
Theorem C10_index_selects_position : forall names i k,
  NoDup names ->
  (0 <= i < Z.of_nat (length names) /\ k = Z.to_nat i) \/
  (- Z.of_nat (length names) <= i < 0 /\ k = Z.to_nat (Z.of_nat (length names) + i)) ->
  exists m nm, resolve (SIndex i) names = Ok m /\ nth_error names k = Some nm /\
    forall j x, nth_error names j = Some x -> (m x = true <-> j = k).
Proof. exact resolve_index. Qed.
Print Assumptions C10_index_selects_position.

Theorem C10_index_out_of_range_rejected : forall names i,
  i >= Z.of_nat (length names) \/ i < - Z.of_nat (length names) -> resolve (SIndex i) names = Err E_INDEX.
Proof. exact resolve_index_out. Qed.
Print Assumptions C10_index_out_of_range_rejected.

(* the step changes only the selected resources (descriptors and row streams alike) *)
Theorem C10_unselected_pass_through : forall (X : Type) m (f : str -> X -> X) xs j n x,
  nth_error xs j = Some (n, x) -> m n = false -> nth_error (apply_selected m f xs) j = Some (n, x).
Proof. exact @apply_selected_unselected. Qed.
Print Assumptions C10_unselected_pass_through.

Theorem C10_selected_get_the_edit : forall (X : Type) m (f : str -> X -> X) xs j n x,
  nth_error xs j = Some (n, x) -> m n = true -> nth_error (apply_selected m f xs) j = Some (n, f n x).
Proof. exact @apply_selected_selected. Qed.
Print Assumptions C10_selected_get_the_edit.

(* tie to the source, regenerated on every run: every ResourceMatcher call
   site of the processors passes the package (object or descriptor), so
   integer selectors are resolved against the package's resource list *)
Theorem C10_every_call_site_passes_the_package :
  forallb (fun p => arg_is_package (snd p)) c_matcher_args = true.
Proof. vm_compute. reflexivity. Qed.
Print Assumptions C10_every_call_site_passes_the_package.

From Coq Require Import String.
Local Open Scope string_scope.
Example C10_nonvacuous :
  selected (SIndex (-1)) [s "a"; s "ab"; s "a.b"] = Ok [false; false; true] /\
  selected (SRegex (RAlt (RChr 97) (RChr 98))) [s "a"; s "ab"; s "b"] = Ok [true; false; true] /\
  selected (SRegex (RSeq (RChr 97) (RSeq RAny (RChr 98)))) [s "a.b"; s "axb"; s "ab"] = Ok [true; true; false].
Proof. vm_compute. repeat split; reflexivity. Qed.
