(* C13: load reproduces the source table faithfully (file level, wrappers, headers, selection). *)
From Coq Require Import List ZArith Bool.
From DF Require Import Base.Str Base.ListX Base.Value Proc.RowOps Proc.Fields Proc.Load Proc.Load_proofs Proc.LoadHeaders_proofs IO.Csv IO.Csv_proofs IO.LoadCsv_proofs Frame.Pull Frame.Pull_proofs.
Import ListNotations.
Open Scope Z_scope.

(* file level: the delimited text of a table (header record, one record per row, every record as wide as the header)
   is read back as one row per data line, in file order, keyed by the header, every cell holding the written text --
   for every table and every cell text (quotes, delimiters, line breaks inside cells) *)
Theorem C13_file_rows_faithful : forall hdr recs rows,
  (forall rc, In rc recs -> length rc = length hdr) ->
  load_csv hdr (write_csv (hdr :: recs)) = Ok rows ->
  length rows = length recs /\
  (forall k rc, nth_error recs k = Some rc ->
     exists r, nth_error rows k = Some r /\ map fst r = hdr /\
       forall i h c, nth_error hdr i = Some h -> nth_error rc i = Some c -> nth_error r i = Some (h, VStr c)).
Proof. exact load_csv_faithful. Qed.
Print Assumptions C13_file_rows_faithful.

Theorem C13_file_always_loads : forall hdr recs,
  load_csv hdr (write_csv (hdr :: recs)) = Ok (map (fun rc => combine hdr (map VStr rc)) recs).
Proof. exact load_csv_written. Qed.
Print Assumptions C13_file_always_loads.

(* limit_rows yields exactly the first n rows *)
Theorem C13_limit_rows_firstn : forall rows n, 1 <= n -> limiter n 0 rows = firstn (Z.to_nat n) rows.
Proof. exact limiter_firstn. Qed.
Print Assumptions C13_limit_rows_firstn.

(* the string strategies yield only strings *)
Theorem C13_stringer_all_strings : forall v v', stringer_value v = Ok v' -> is_str v' = true.
Proof. exact stringer_all_strings. Qed.
Print Assumptions C13_stringer_all_strings.

(* cell text preserved apart from optional whitespace stripping *)
Theorem C13_strip_only_strings : forall v, is_str v = false -> strip_value v = v.
Proof. exact strip_value_non_string. Qed.
Print Assumptions C13_strip_only_strings.

Theorem C13_strip_spec : forall x,
  strip_value (VStr x) =
  match x with
  | [] => VStr []
  | c :: r => if trigger c || trigger (last x 0) then VStr (strip x) else VStr x
  end.
Proof. exact strip_value_spec. Qed.
Print Assumptions C13_strip_spec.

Theorem C13_strip_keeps_shape : forall rows, map rkeys (stripper rows) = map rkeys rows.
Proof. exact stripper_shape. Qed.
Print Assumptions C13_strip_keeps_shape.

(* wrappers are applied in the order cast -> strip -> limit *)
Theorem C13_wrapper_order : forall caster rows n, 1 <= n ->
  wrap caster true (Some n) rows = firstn (Z.to_nat n) (stripper (caster rows)).
Proof. exact wrapper_order. Qed.
Print Assumptions C13_wrapper_order.

(* duplicate headers are rejected unless de-duplication is requested; unique headers are kept *)
Theorem C13_duplicate_headers_rejected : forall cs pre post hs,
  has_duplicates cs hs = true -> load_headers false cs pre post hs = Err E_VALUE.
Proof. exact headers_rejected. Qed.
Print Assumptions C13_duplicate_headers_rejected.

Theorem C13_unique_headers_untouched : forall dedup cs pre post hs,
  has_duplicates cs hs = false -> load_headers dedup cs pre post hs = Ok hs.
Proof. exact headers_unique_untouched. Qed.
Print Assumptions C13_unique_headers_untouched.

(* header de-duplication in closed form, for every header list, both case modes and every format: a header whose key
   (itself, or its lower-case form) occurs once is kept; the j-th of several headers sharing a key becomes
   header ++ pre ++ j ++ post *)
Print entry.          (* entry all seen h := if 1 <? cnt (hkey cs h) all then fmt_dup pre post h (cnt (hkey cs h) seen + 1) else h *)
Print scheme_from.    (* scheme_from all seen (h :: r) := entry all seen h :: scheme_from all (seen ++ [hkey cs h]) r *)
Theorem C13_dedup_headers_scheme : forall cs pre post hs,
  rename_duplicate_headers cs pre post hs = scheme_from cs pre post (map (hkey cs) hs) [] hs.
Proof. exact rename_duplicate_headers_scheme. Qed.
Print Assumptions C13_dedup_headers_scheme.

(* every name still begins with its header; headers with a unique key are untouched; one name per header *)
Theorem C13_dedup_headers_kept : forall cs pre post hs,
  Forall2 (fun h e => is_prefix h e = true /\ (cnt (hkey cs h) (map (hkey cs) hs) <= 1 -> e = h))
          hs (rename_duplicate_headers cs pre post hs).
Proof. exact rename_keeps_headers. Qed.
Print Assumptions C13_dedup_headers_kept.

(* the names are unique whenever the first character of the numbering format occurs in no header (the collision of the
   known finding needs a header that already looks like a generated name) *)
Theorem C13_dedup_headers_unique : forall cs pre post c0 pre' hs,
  pre = c0 :: pre' -> (forall h, In h hs -> ~ In c0 h) ->
  NoDup (rename_duplicate_headers cs pre post hs).
Proof. exact rename_unique. Qed.
Print Assumptions C13_dedup_headers_unique.

(* loading from a tuple / data package selects exactly the requested resources, each with its own rows *)
Theorem C13_selection_pairs : forall (A B : Type) (m : str -> bool) (name : A -> str) (l : list (A * B)) p,
  In p (select_pairs m name l) <-> In p l /\ m (name (fst p)) = true.
Proof. exact @select_pairs_paired. Qed.
Print Assumptions C13_selection_pairs.

Theorem C13_selection_order : forall (A B : Type) (m : str -> bool) (name : A -> str) (l : list (A * B)),
  subseq (select_pairs m name l) l.
Proof. exact @select_pairs_order. Qed.
Print Assumptions C13_selection_order.

From Coq Require Import String.
Local Open Scope string_scope.

(* header de-duplication makes headers unique on ordinary inputs ... *)
Example C13_dedup_headers_example :
  rename_duplicate_headers true (s " (") (s ")") [s "a"; s "b"; s "a"; s "a"] = [s "a (1)"; s "b"; s "a (2)"; s "a (3)"].
Proof. vm_compute. reflexivity. Qed.

(* the premise of C13_dedup_headers_unique is met by such inputs *)
Example C13_dedup_headers_unique_example :
  NoDup (rename_duplicate_headers true (s " (") (s ")") [s "a"; s "b"; s "a"; s "a"]).
Proof.
  apply (C13_dedup_headers_unique true (s " (") (s ")") 32 (s "(")); [reflexivity|].
  intros h H. vm_compute in H.
  repeat (destruct H as [<-|H]; [vm_compute; intros [E|[]]; discriminate|]). destruct H.
Qed.

(* ... but not always (known finding C13.dedup_headers_collision): a generated name can
   collide with a header that is already there.  The full statement
   "forall hs, NoDup (rename_duplicate_headers ...)" is therefore false of the faithful model: *)
Theorem C13_dedup_headers_unique_refuted :
  exists hs, str_nodup (rename_duplicate_headers true (s " (") (s ")") hs) = false.
Proof. exists [s "a"; s "a"; s "a (1)"]. vm_compute. reflexivity. Qed.
Print Assumptions C13_dedup_headers_unique_refuted.

(* the CSV reader model on a well-formed file: one record per data line, cell text preserved *)
Example C13_csv_example :
  read_csv (write_csv [[s "h1"; s "h 2"]; [s "a,b"; s "say ""hi"""]; [s ""; s "x"]])
  = Ok [[s "h1"; s "h 2"]; [s "a,b"; s "say ""hi"""]; [s ""; s "x"]].
Proof. vm_compute. reflexivity. Qed.

(* load((descriptor, resources), resources=selector) over a live stream (fix f784d67), in the pull protocol of Frame/Pull.v:
   a consumer that reads every resource to its end, the skipped ones included, lets a producer that records rows only as
   they are read (duplicate's store, join's index) see the whole package; one that skips a resource unread does not *)
Theorem C13_pair_reader_lets_the_producer_see_everything : forall (R : Type) (pkg : list (list R)),
  done (fst (orun R false (start R pkg) (reads (map (@List.length R) pkg)))) = pkg.
Proof. exact full_reader_complete. Qed.
Print Assumptions C13_pair_reader_lets_the_producer_see_everything.

Theorem C13_skipping_reader_refuted : exists (pkg : list (list nat)),
  done (fst (orun nat false (start nat pkg) (reads (map (fun _ => 0%nat) pkg)))) <> pkg.
Proof. exact skipping_reader_refuted. Qed.
Print Assumptions C13_skipping_reader_refuted.
