From Coq Require Import List ZArith Bool Lia ZifyBool.
From DF Require Import Base.Str Base.Str_proofs Base.Value Base.Regex Base.Regex_proofs Base.Selector.
Import ListNotations.
Open Scope Z_scope.

Lemma resolve_all names : exists m, resolve SAll names = Ok m /\ forall n, m n = true.
Proof. eexists. split; [reflexivity|]. intros; reflexivity. Qed.

Lemma resolve_regex r names : exists m, resolve (SRegex r) names = Ok m /\ forall n, m n = fullmatch r n.
Proof. eexists. split; [reflexivity|]. intros; reflexivity. Qed.

(* ... i.e. exactly the names in the language of the expression *)
Lemma resolve_regex_language r names :
  exists m, resolve (SRegex r) names = Ok m /\ forall n, m n = true <-> Matches r n.
Proof.
  destruct (resolve_regex r names) as (m & E & H). exists m. split; [exact E|].
  intros n. rewrite H. apply fullmatch_spec.
Qed.


Lemma resolve_list l names : exists m, resolve (SList l) names = Ok m /\ forall n, m n = true <-> In n l.
Proof. eexists. split; [reflexivity|]. intros n. apply str_in_In. Qed.

Lemma py_index_nonneg {A} (l : list A) i :
  0 <= i < Z.of_nat (length l) -> py_index l i = nth_error l (Z.to_nat i).
Proof.
  intros H. unfold py_index.
  destruct (0 <=? i) eqn:A1; [|apply Z.leb_gt in A1; lia].
  destruct (i <? Z.of_nat (length l)) eqn:A2; [reflexivity|apply Z.ltb_ge in A2; lia].
Qed.

Lemma py_index_neg {A} (l : list A) i :
  - Z.of_nat (length l) <= i < 0 -> py_index l i = nth_error l (Z.to_nat (Z.of_nat (length l) + i)).
Proof.
  intros H. unfold py_index.
  destruct (0 <=? i) eqn:A1; [apply Z.leb_le in A1; lia|]. simpl.
  destruct (i <? 0) eqn:A2; [|apply Z.ltb_ge in A2; lia].
  destruct (0 <=? Z.of_nat (length l) + i) eqn:A3; [reflexivity|apply Z.leb_gt in A3; lia].
Qed.

Lemma py_index_out {A} (l : list A) i :
  i >= Z.of_nat (length l) \/ i < - Z.of_nat (length l) -> py_index l i = None.
Proof.
  intros H. unfold py_index.
  destruct ((0 <=? i) && (i <? Z.of_nat (length l))) eqn:A1; [lia|].
  destruct ((i <? 0) && (0 <=? Z.of_nat (length l) + i)) eqn:A2; [lia|reflexivity].
Qed.

(* an integer selects by position, negative from the end, and -- resource names
   being unique -- selects exactly that position *)
Lemma resolve_index names i k :
  NoDup names ->
  (0 <= i < Z.of_nat (length names) /\ k = Z.to_nat i) \/
  (- Z.of_nat (length names) <= i < 0 /\ k = Z.to_nat (Z.of_nat (length names) + i)) ->
  exists m nm, resolve (SIndex i) names = Ok m /\ nth_error names k = Some nm /\
    forall j x, nth_error names j = Some x -> (m x = true <-> j = k).
Proof.
  intros ND H.
  assert (Hk : (k < length names)%nat) by (destruct H as [[H1 ->]|[H1 ->]]; lia).
  assert (E : py_index names i = nth_error names k).
  { destruct H as [[H1 ->]|[H1 ->]]; [apply py_index_nonneg|apply py_index_neg]; lia. }
  destruct (nth_error names k) as [nm|] eqn:N; [|apply nth_error_None in N; lia].
  exists (fun n => str_in n [nm]), nm. unfold resolve. rewrite E. split; [reflexivity|]. split; [reflexivity|].
  intros j x Hj. rewrite str_in_In. simpl. split.
  - intros [->|[]]. rewrite NoDup_nth_error in ND. apply ND; [apply nth_error_Some; congruence|congruence].
  - intros ->. left. congruence.
Qed.

Lemma resolve_index_out names i :
  i >= Z.of_nat (length names) \/ i < - Z.of_nat (length names) -> resolve (SIndex i) names = Err E_INDEX.
Proof. intros H. unfold resolve. rewrite py_index_out by exact H. reflexivity. Qed.

(* the step changes only the selected resources *)
Lemma apply_selected_unselected {X} m (f : str -> X -> X) xs j n x :
  nth_error xs j = Some (n, x) -> m n = false -> nth_error (apply_selected m f xs) j = Some (n, x).
Proof.
  intros H Hm. unfold apply_selected. rewrite nth_error_map, H. simpl. rewrite Hm. reflexivity.
Qed.

Lemma apply_selected_selected {X} m (f : str -> X -> X) xs j n x :
  nth_error xs j = Some (n, x) -> m n = true -> nth_error (apply_selected m f xs) j = Some (n, f n x).
Proof.
  intros H Hm. unfold apply_selected. rewrite nth_error_map, H. simpl. rewrite Hm. reflexivity.
Qed.

Lemma apply_selected_names {X} m (f : str -> X -> X) xs :
  map fst (apply_selected m f xs) = map fst xs.
Proof.
  unfold apply_selected. rewrite map_map. apply map_ext. intros [n x]. simpl. destruct (m n); reflexivity.
Qed.
