(* the reserved keys of extended_json.py, and trivial concrete scalar codecs used
   to run the model (any codecs with parse (print x) = x give the same decode (encode v)) *)
From Coq Require Import List ZArith Bool String.
From DF Require Import Base.Str Base.Value IO.EJson.
Import ListNotations.
Open Scope string_scope.

Definition real_keys : rkeys :=
  {| k_dec := s "type{decimal}"; k_time := s "type{time}"; k_dt := s "type{datetime}";
     k_date := s "type{date}"; k_dur := s "type{duration}"; k_set := s "type{set}" |}.

Open Scope Z_scope.
Definition c_dec_str (m e : Z) : str := [m; e].
Definition c_dec_parse (x : str) : option (Z * Z) := match x with [m; e] => Some (m, e) | _ => None end.
Definition c_time_str (h mi sc : Z) : str := [h; mi; sc].
Definition c_time_parse (x : str) := match x with [h; mi; sc] => Some (h, mi, sc) | _ => None end.
Definition c_dt_str (y mo d h mi sc : Z) : str := [y; mo; d; h; mi; sc].
Definition c_dt_parse (x : str) := match x with [y; mo; d; h; mi; sc] => Some (y, mo, d, h, mi, sc) | _ => None end.
Definition c_date_str (y mo d : Z) : str := [y; mo; d].
Definition c_date_parse (x : str) := match x with [y; mo; d] => Some (y, mo, d) | _ => None end.
Definition c_dur_str (d sc us : Z) : str := [d; sc; us].
Definition c_dur_parse (x : str) := match x with [d; sc; us] => Some (d, sc, us) | _ => None end.

(* what a value looks like after stream -> unstream *)
Definition rt_model (v : value) : value :=
  decode real_keys c_dec_parse c_time_parse c_dt_parse c_date_parse c_dur_parse
         (encode real_keys c_dec_str c_time_str c_dt_str c_date_str c_dur_str v).
