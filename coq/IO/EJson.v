(* dataflows/helpers/extended_json.py: CommonJSONEncoder.default and
   CommonJSONDecoder.object_hook over JSON trees.  The textual codecs of scalars
   (str(Decimal)/Decimal(str), strftime/strptime, isodate) are parameters. *)
From Coq Require Import List ZArith Bool Lia.
From DF Require Import Base.Str Base.Value.
Import ListNotations.
Open Scope Z_scope.

Inductive json :=
| JNull | JBool (b : bool) | JInt (z : Z) | JFlt (m e : Z) | JStr (x : str)
| JArr (l : list json) | JObj (l : list (str * json)).

(* reserved keys *)
Record rkeys := { k_dec : str; k_time : str; k_dt : str; k_date : str; k_dur : str; k_set : str }.

Section EJ.
  Variable K : rkeys.
  (* scalar text codecs *)
  Variable dec_str : Z -> Z -> str.            Variable dec_parse : str -> option (Z * Z).
  Variable time_str : Z -> Z -> Z -> str.      Variable time_parse : str -> option (Z * Z * Z).
  Variable dt_str : Z -> Z -> Z -> Z -> Z -> Z -> str.
  Variable dt_parse : str -> option (Z * Z * Z * Z * Z * Z).
  Variable date_str : Z -> Z -> Z -> str.      Variable date_parse : str -> option (Z * Z * Z).
  Variable dur_str : Z -> Z -> Z -> str.       Variable dur_parse : str -> option (Z * Z * Z).

  (* json.dumps(..., cls=CommonJSONEncoder): note that time and datetime lose their microseconds
     (strftime without %f) -- the model is faithful to that *)
  Fixpoint encode (v : value) : json :=
    match v with
    | VNull => JNull
    | VBool b => JBool b
    | VInt z => JInt z
    | VFlt m e => JFlt m e
    | VStr x => JStr x
    | VDec m e => JObj [(k_dec K, JStr (dec_str m e))]
    | VTime h mi sc us => JObj [(k_time K, JStr (time_str h mi sc))]
    | VDT y mo d h mi sc us tz =>
        JObj [(k_dt K, JArr [JStr (dt_str y mo d h mi sc);
                             match tz with Some (ofs, _) => JInt ofs | None => JNull end;
                             match tz with Some (_, Some n) => JStr n | _ => JNull end])]
    | VDate y mo d => JObj [(k_date K, JStr (date_str y mo d))]
    | VDur d sc us => JObj [(k_dur K, JStr (dur_str d sc us))]
    | VList l => JArr (map encode l)
    | VObj l => JObj (map (fun kv => (fst kv, encode (snd kv))) l)
    end.

  Fixpoint jget (l : list (str * value)) (k : str) : option value :=
    match l with [] => None | (a, b) :: r => if str_eqb k a then Some b else jget r k end.

  (* object_hook, applied to an object whose members are already decoded *)
  Definition hook (l : list (str * value)) : value :=
    let try_dec :=
      match jget l (k_dec K) with
      | Some (VStr x) => match dec_parse x with Some (m, e) => Some (VDec m e) | None => None end
      | _ => None end in
    let try_time :=
      match jget l (k_time K) with
      | Some (VStr x) => match time_parse x with Some (h, mi, sc) => Some (VTime h mi sc 0) | None => None end
      | _ => None end in
    let try_dt :=
      match jget l (k_dt K) with
      | Some (VList [VStr x; ofs; nm]) =>
          match dt_parse x with
          | Some (y, mo, d, h, mi, sc) =>
              match nm, ofs with
              | VStr n, VInt o => Some (VDT y mo d h mi sc 0 (Some (o, Some n)))
              | VNull, _ => Some (VDT y mo d h mi sc 0 None)
              | _, _ => None
              end
          | None => None end
      | _ => None end in
    let try_date :=
      match jget l (k_date K) with
      | Some (VStr x) => match date_parse x with Some (y, mo, d) => Some (VDate y mo d) | None => None end
      | _ => None end in
    let try_dur :=
      match jget l (k_dur K) with
      | Some (VStr x) => match dur_parse x with Some (d, sc, us) => Some (VDur d sc us) | None => None end
      | _ => None end in
    match try_dec with Some v => v | None =>
    match try_time with Some v => v | None =>
    match try_dt with Some v => v | None =>
    match try_date with Some v => v | None =>
    match try_dur with Some v => v | None =>
    VObj l end end end end end.

  Fixpoint decode (j : json) : value :=
    match j with
    | JNull => VNull
    | JBool b => VBool b
    | JInt z => VInt z
    | JFlt m e => VFlt m e
    | JStr x => VStr x
    | JArr l => VList (map decode l)
    | JObj l => hook (map (fun kv => (fst kv, decode (snd kv))) l)
    end.

  (* values the encoding represents faithfully *)
  Definition reserved (k : str) : bool :=
    str_eqb k (k_dec K) || str_eqb k (k_time K) || str_eqb k (k_dt K) || str_eqb k (k_date K) || str_eqb k (k_dur K)
    || str_eqb k (k_set K).

  Fixpoint ejson_ok (v : value) : bool :=
    match v with
    | VTime _ _ _ us => us =? 0
    | VDT _ _ _ _ _ _ us tz =>
        (us =? 0) && match tz with None => true | Some (_, Some _) => true | Some (_, None) => false end
    | VList l => forallb ejson_ok l
    | VObj l => forallb (fun kv => negb (reserved (fst kv)) && ejson_ok (snd kv)) l
    | _ => true
    end.
End EJ.
