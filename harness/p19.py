"""C19 A dump descriptor is written only after its data files are complete."""
import copy, shutil, json, subprocess, sys, textwrap, hashlib
from concurrent.futures import ThreadPoolExecutor
from common import *

PROP = 'C19'
PROPS_V = 'Props/C19.v'
COQ_IMPORTS = ['Base.Str', 'Base.Value', 'IO.Dump']
RULE = ('cases = dumps of 1-3 resources x 0-N rows (N = 4 quick, 40 thorough) in CSV and JSON (round 8: also Excel) format into a fresh directory; a '
        'child process is killed before every single file operation of dump_to_path (temp-file create/write/close, '
        'makedirs, destination open / each copy chunk / close, unlink; copies are chunked so a kill can leave any chunk '
        'prefix); exhaustive over operation indices per case; non-trivial = kill strictly inside the dump; '
        'distinct = (shape, format, kill point)'
        '; round 4: also counters switched off one kind at a time and resource paths with sub-directories, spaces and a backslash'
        '; round 9: hidden files and directories (leading dots), a file name longer than the file system allows')
TRUSTED = ['Coq 8.16.1 kernel + vm_compute', 'harness/p19.py fault injector (wraps tempfile / shutil.copy / os in the dumper modules\' namespaces of the child) and oracle',
           'a proper prefix of the JSON text of a descriptor is not parseable (checked by the harness on every real descriptor with json.loads on all prefixes)',
           'data handed to the OS by write on the destination survives a process kill']
ASSUMES = ['fresh output directory', 'resource paths are distinct and differ from datapackage.json']

from flowutil import *
import dataflows as DF
import tempfile as real_tempfile, builtins


def dump_with_faults(case, d, kill_at):
    """runs in a forked child: the unchanged dumper with tempfile/shutil/os wrapped in its modules' namespaces"""
    FD = sys.modules['dataflows.processors.dumpers.file_dumper']
    TP = sys.modules['dataflows.processors.dumpers.to_path']
    ops = []

    def tick(name):
        if kill_at is not None and len(ops) == kill_at:
            os._exit(77)
        ops.append(name)

    class TF:
        def __init__(self, f):
            self.__dict__['f'] = f

        def write(self, t):
            tick('tmp_write')
            return self.f.write(t)

        def close(self):
            tick('tmp_close')
            return self.f.close()

        def __getattr__(self, n):
            return getattr(self.f, n)

        def __setattr__(self, n, v):
            setattr(self.f, n, v)

    class TempMod:
        def NamedTemporaryFile(self, *a, **k):
            tick('tmp_create')
            return TF(real_tempfile.NamedTemporaryFile(*a, **k))

    class OSMod:
        path = os.path

        def __getattr__(self, n):
            return getattr(os, n)

        def unlink(self, p):
            tick('unlink')
            return os.unlink(p)

        def remove(self, p):
            tick('unlink')
            return os.remove(p)

        def makedirs(self, *a, **k):
            tick('mkdir')
            return os.makedirs(*a, **k)

    class ShMod:
        """shutil with every file-copying entry point chunked and instrumented (a kill can leave any chunk prefix);
        everything else (copymode, copystat, ...) is the real shutil"""
        def __getattr__(self, n):
            return getattr(shutil, n)

        def copyfile(self, src, dst, **kw):
            tick('out_open')
            with builtins.open(src, 'rb') as s_, builtins.open(dst, 'wb') as d_:
                while True:
                    b = s_.read(case['chunk'])
                    if not b:
                        break
                    tick('out_chunk')
                    d_.write(b)
                    d_.flush()
                tick('out_close')
            return dst

        def copy(self, src, dst, **kw):
            if os.path.isdir(dst):
                dst = os.path.join(dst, os.path.basename(src))
            self.copyfile(src, dst)
            shutil.copymode(src, dst)
            return dst

        def copy2(self, src, dst, **kw):
            if os.path.isdir(dst):
                dst = os.path.join(dst, os.path.basename(src))
            self.copyfile(src, dst)
            shutil.copystat(src, dst)
            return dst
    FD.tempfile = TempMod()
    FD.os = OSMod()
    TP.shutil = ShMod()
    TP.os = OSMod()
    try:
        with quiet():
            Flow(*(sources(case) + [DF.dump_to_path(d, **dump_kw(case))] + later_steps(case))).process()
        return {'ops': ops}
    except Exception as e:
        return {'ops': ops, 'error': type(e).__name__ + ': ' + str(e)[:200]}


def sources(case):
    """the source links: the resources, then the steps that give them the paths the case asks for"""
    links = [list(r) for r in case['pkg']]
    for i, pth in enumerate(case.get('paths') or []):
        if pth is not None:
            links.append(DF.update_resource('res_%d' % (i + 1), path=pth))
    return links


def later_steps(case):
    """a step after the dumper that stops reading every resource after one row (the dump must be complete all the same)"""
    if not case.get('stopper'):
        return []

    def take1(rows):
        for i, r in enumerate(rows):
            if i >= 1:
                break
            yield r
    return [take1]


def dump_kw(case):
    kw = {'format': case['format'], 'add_filehash_to_path': case.get('hashpath', False)}
    if case.get('counters'):
        kw['counters'] = dict(case['counters'])
    return kw


def gen_cases(rng, tier):
    shapes = {'quick': [([2], 'csv'), ([0, 3], 'json'), ([4, 1, 2], 'csv')],
              'thorough': [([0], 'csv'), ([2], 'csv'), ([2], 'json'), ([0, 3], 'json'), ([3, 0], 'csv'), ([4, 1, 2], 'csv'),
                           ([1, 1, 1], 'json'), ([40], 'csv'), ([17, 0, 9], 'json')],
              'search': [([2], 'csv'), ([1, 2], 'json'), ([2, 1, 1], 'csv')]}[tier]
    cases = []
    for sh, fmt in shapes:
        pkg = [[{'a': 10 * i + j, 's': 'é%d' % j} for j in range(n)] or [] for i, n in enumerate(sh)]
        cases.append({'kind': 'crash', 'pkg': pkg, 'format': fmt, 'shape': sh, 'chunk': 48})
    # add_filehash_to_path with resources whose files are byte-identical (same rows, also two empty ones): every
    # listed file must still exist under its own name
    for sh, fmt in ([([2, 2], 'csv'), ([0, 0], 'json')] if tier != 'thorough' else [([2, 2], 'csv'), ([0, 0], 'json'), ([3, 3, 3], 'json'), ([1, 2, 1], 'csv')]):
        pkg = [[{'a': j, 's': 'é%d' % j} for j in range(n)] for n in sh]
        cases.append({'kind': 'crash', 'pkg': pkg, 'format': fmt, 'shape': sh, 'chunk': 48, 'hashpath': True})
    # counters switched off one kind at a time (what stays recorded must still be true of the file), and resource paths
    # with sub-directories, spaces and a backslash (the listed path must be the path written)
    extra = [({'resource-bytes': None, 'datapackage-bytes': None}, None), ({'resource-hash': None, 'datapackage-hash': None}, None),
             (None, ['data\\r 1.csv', 'sub/dir/r2.csv']), (None, ['cafe\u0301.csv', 'd\u0061\u0308ta/\u00e9.csv'])]
    # hidden files and directories (a leading dot is part of the name), and a file name longer than the file system allows
    extra += [(None, ['.hidden.csv', '.cache/part.csv']), (None, ['./plain.csv', '.d/.e.csv'])]
    cases.append({'kind': 'crash', 'pkg': [[{'a': j, 's': 'x'} for j in range(2)]], 'format': 'csv', 'shape': [2], 'chunk': 48,
                  'paths': ['n' * 300 + '.csv'], 'may_fail': True})
    if tier == 'thorough':
        extra += [({'resource-bytes': None}, ['a/b.csv', None]), ({'resource-rowcount': None, 'datapackage-bytes': None}, ['x\\y\\z.csv', 'x/y.csv'])]
    cases.append({'kind': 'crash', 'pkg': [[{'a': 10 * i + j, 's': 'é%d' % j} for j in range(n)] for i, n in enumerate([3, 2])], 'format': 'csv',
                  'shape': [3, 2], 'chunk': 48, 'stopper': True})
    # the formats whose writer saves the file by name instead of writing through the open handle (round 8)
    for fmt in ('excel', 'xlsx'):
        cases.append({'kind': 'crash', 'pkg': [[{'a': 10 * i + j, 's': 'é%d' % j} for j in range(n)] for i, n in enumerate([2, 1])], 'format': fmt,
                      'shape': [2, 1], 'chunk': 48})
    for k, (counters, paths) in enumerate(extra):
        fmt = 'csv' if k % 2 == 0 else 'json'
        pkg = [[{'a': 10 * i + j, 's': 'é%d' % j} for j in range(n)] for i, n in enumerate([2, 1])]
        cases.append({'kind': 'crash', 'pkg': pkg, 'format': fmt, 'shape': [2, 1], 'chunk': 48, 'counters': counters, 'paths': paths})
    return cases


def inspect(d, off=()):
    """the property evaluated on a directory (off = the counters the case switched off)"""
    f = os.path.join(d, 'datapackage.json')
    if not os.path.exists(f):
        return {'descriptor': 'absent'}
    text = open(f, 'rb').read()
    try:
        dp = json.loads(text.decode('utf-8'))
    except Exception:
        return {'descriptor': 'unparseable', 'len': len(text)}
    bad = []
    for r in dp.get('resources', []):
        p = os.path.join(d, r['path'])
        if not os.path.exists(p):
            bad.append('listed file %s does not exist' % r['path'])
            continue
        data = open(p, 'rb').read()
        if 'resource-bytes' not in off and r.get('bytes') != len(data):
            bad.append('%s has %d bytes, descriptor says %r' % (r['path'], len(data), r.get('bytes')))
        if 'resource-hash' not in off and r.get('hash') != hashlib.md5(data).hexdigest():
            bad.append('%s: md5 differs from the recorded hash' % r['path'])
    return {'descriptor': 'parseable', 'bad': bad}


def run_impl(case):
    base = os.path.join(scratch(), 'c19_%s' % digest(case))
    os.makedirs(base, exist_ok=True)
    d0 = os.path.join(base, 'clean')
    (rc, clean), = fork_map(lambda _: dump_with_faults(case, d0, None), [0])
    if case.get('may_fail') and (clean is None or 'error' in clean):
        # a dump the file system refuses (a file name longer than it allows): the run fails, and then nothing in the directory
        # may tell of a complete package
        r = inspect(d0, ()) if os.path.isdir(d0) else {'descriptor': 'absent'}
        shutil.rmtree(base, ignore_errors=True)
        return {'refused': True, 'after': r}
    if clean is None or 'error' in clean:
        return {'error': 'clean run failed: %r' % (clean,)}
    ops = clean['ops']
    off = tuple(k for k, v in (case.get('counters') or {}).items() if v is None)
    final = inspect(d0, off)
    text = open(os.path.join(d0, 'datapackage.json'), 'rb').read()
    prefix_parse = 0
    for i in range(len(text)):
        try:
            json.loads(text[:i].decode('utf-8', errors='strict'))
            prefix_parse += 1
        except Exception:
            pass
    fork_map(lambda k: dump_with_faults(case, os.path.join(base, 'k%d' % k), k), list(range(len(ops))))
    kills = []
    for k in range(len(ops)):
        d = os.path.join(base, 'k%d' % k)
        r = inspect(d, off) if os.path.isdir(d) else {'descriptor': 'absent'}
        r['k'] = k
        kills.append(r)
    # interruptions by an exception (a later step raising at every row of every resource, and the copy of every data
    # file failing): the generators are torn down in an orderly way, which must not let the descriptor appear either
    raises = []

    def raising_step(ri, k):
        cur = [-1]

        def f(rows):
            cur[0] += 1
            for j, r in enumerate(rows):
                if cur[0] == ri and j == k:
                    raise RuntimeError('injected downstream failure')
                yield r
        return f
    # (with a later step that stops reading early the injected failure positions would not be reached: none then)
    points = [] if case.get('stopper') else [(ri, k) for ri, rows in enumerate(case['pkg']) for k in range(len(rows))]
    for ri, k in points:
        d = os.path.join(base, 'x%d_%d' % (ri, k))
        try:
            with quiet():
                Flow(*(sources(case) + [DF.dump_to_path(d, **dump_kw(case)), raising_step(ri, k)] + later_steps(case))).process()
            raised = False
        except Exception:
            raised = True
        r = inspect(d, off) if os.path.isdir(d) else {'descriptor': 'absent'}
        r.update({'res': ri, 'row': k, 'raised': raised})
        raises.append(r)
    # a later step that stops reading early, and a source that fails in the part that step never asks for: the dumper reads
    # that part itself, so the failure is the run's failure and no descriptor may tell of a complete package (round 8)
    unread = []
    if case.get('stopper'):
        for ri, rows in enumerate(case['pkg']):
            # (past the 100 rows the source link reads ahead to infer the schema: a failure inside them is a failure of that link)
            long_rows = [dict(rows[0], a=j) for j in range(130)]
            for k in (105, 129, 130):
                d = os.path.join(base, 'u%d_%d' % (ri, k))

                def failing(rows=long_rows, k=k):
                    for j, r in enumerate(rows):
                        if j == k:
                            raise RuntimeError('the source breaks down at row %d' % k)
                        yield dict(r)
                    if k == len(rows):
                        raise RuntimeError('the source breaks down at its end')
                links = [list(r) for r in case['pkg']]
                links[ri] = failing()
                try:
                    with quiet():
                        Flow(*(links + [DF.dump_to_path(d, **dump_kw(case))] + later_steps(case))).process()
                    raised = False
                except Exception:
                    raised = True
                r = inspect(d, off) if os.path.isdir(d) else {'descriptor': 'absent'}
                r.update({'res': ri, 'row': k, 'raised': raised})
                unread.append(r)
    shutil.rmtree(base, ignore_errors=True)
    return {'ops': ops, 'final': final, 'kills': kills, 'raises': raises, 'unread': unread, 'parseable_proper_prefixes': prefix_parse}


def oracle(case, out):
    if 'error' in out:
        return out['error']
    if out.get('refused'):
        a = out['after']
        if a['descriptor'] == 'parseable' and a['bad']:
            return 'the dump failed, yet a parseable datapackage.json is present and %s' % '; '.join(a['bad'])
        return None
    if out['final']['descriptor'] != 'parseable' or out['final']['bad']:
        return 'after a complete dump: %r' % out['final']
    if out['parseable_proper_prefixes']:
        return 'a proper prefix of datapackage.json is itself parseable JSON (completion-marker assumption broken)'
    for kk in out['kills']:
        if kk['descriptor'] == 'parseable' and kk['bad']:
            return 'killed before file operation #%d (%s): a parseable datapackage.json is present but %s' % (
                kk['k'], out['ops'][kk['k']], '; '.join(kk['bad']))
    for rr in out.get('raises', []):
        if not rr['raised']:
            return 'a later step raised at row %d of resource %d but the run returned normally' % (rr['row'], rr['res'])
        if rr['descriptor'] == 'parseable' and rr['bad']:
            return 'a later step raised at row %d of resource %d: a parseable datapackage.json is present but %s' % (
                rr['row'], rr['res'], '; '.join(rr['bad']))
    for rr in out.get('unread', []):
        if not rr['raised']:
            return ('the source of resource %d broke down at row %d, in the part a later step never reads (the dumper reads it): '
                    'the run returned normally (descriptor: %s)') % (rr['res'], rr['row'], rr['descriptor'])
        if rr['descriptor'] == 'parseable' and rr['bad']:
            return 'the source of resource %d broke down at row %d behind an early-stopping step: a parseable datapackage.json is present but %s' % (
                rr['res'], rr['row'], '; '.join(rr['bad']))
    return None


def collapse(seq):
    out = []
    for x in seq:
        if not out or out[-1] != x:
            out.append(x)
    return out


def coq_term(case, out):
    if 'error' in out or out.get('refused'):
        return None
    if case['format'] in ('excel', 'xlsx'):
        return None      # the workbook is saved by name, not written through the handle the model follows: decided by the oracle
    kinds = {'tmp_create': 0, 'tmp_write': 1, 'tmp_close': 2, 'out_open': 3, 'out_chunk': 4, 'out_close': 5, 'unlink': 6}
    real = collapse([kinds[o] for o in out['ops'] if o in kinds])
    n = len(case['pkg'])
    rs = clist(['{| d_path := [%d]; d_chunks := [[1]] |}' % (i + 1) for i in range(n)])
    model = ('(fix col (l : list Z) := match l with a :: ((b :: _) as r) => if a =? b then col r else a :: col r | _ => l end) '
             '(map (fun o => match o with TmpCreate _ => 0 | TmpWrite _ _ => 1 | TmpClose _ => 2 | OutOpen _ => 3 | OutChunk _ _ => 4 '
             '| OutClose _ => 5 | TmpUnlink _ => 6 end) (dump_ops [0] %s [[1]]))') % rs
    # an empty JSON/CSV resource still writes at least a header or brackets, so every resource has writes
    return 'list_eqb Z.eqb (%s) %s' % (model, clist([cZ(x) for x in real]))


def nontrivial(case, out):
    return True
