"""C06 Row-wise pipelines stream with bounded look-ahead."""
import copy
from common import *
from tracelib import *

PROP = 'C06'
PROPS_V = 'Props/C06.v'
COQ_IMPORTS = ['Base.Str', 'Base.Value', 'Frame.Events']
RULE = ('cases = stream lengths 10^1..10^3 (quick; 10^4, 10^5 thorough) x pipelines of 1-6 non-buffering steps (user row/rows '
        'functions with code around the yield, filter, add_field, set_type, expanding step, printer, dump_to_path, stream, '
        'first-run checkpoint); the real order of source pulls and deliveries is recorded; non-trivial = n larger than '
        'the inference sample; distinct = (n, pipeline)'
        '; round 4: dump steps in every file format (csv, json, excel, xlsx)'
        '; round 8: sources that know their length (__len__) and still yield on demand'
        '; round 9: unique and required constraints set on the way')
TRUSTED = ['Coq 8.16.1 kernel + vm_compute', 'harness/tracelib.py probes (counting source, logging steps, terminal consumer) and Gallina printer',
           'Python generator laziness itself is modelled (function composition on event lists), validated by the trace correspondence',
           'memory use is represented only by the number of rows read ahead']
ASSUMES = ['sources are iterables (the tabulator sample of file sources is a constant as well, not modelled)']

KINDS = ['probe_rows', 'probe_row', 'filter', 'add_field', 'set_type', 'expand', 'printer', 'dump', 'stream', 'checkpoint', 'unique', 'required']


def gen_cases(rng, tier):
    sizes = {'quick': [10, 100, 101, 250, 1000], 'thorough': [10, 100, 101, 1000, 10000, 100000], 'search': [101, 300, 2000]}[tier]
    reps = {'quick': 4, 'thorough': 6, 'search': 8}[tier]
    cases = []
    for n in sizes:
        for _ in range(reps if n <= 1000 else 1):
            steps = []
            for _ in range(rng.randint(1, 6)):
                t = rng.pick(KINDS)
                st = {'t': t}
                if t == 'filter':
                    st['mod'] = rng.pick([2, 3, 5])
                if t == 'dump':
                    # every file format writes row by row (or in fixed batches)
                    st['format'] = rng.pick(['csv', 'json', 'excel', 'xlsx'] if n <= 1000 else ['csv', 'json'])
                steps.append(st)
            cases.append({'kind': 'lookahead', 'n': n, 'steps': steps, 'sparse': rng.pick([None, None, 'leading', 'always'])})
            if rng.chance(0.3):
                cases[-1]['sized'] = True       # the source knows its length (has __len__) and still yields its rows on demand
    for fmt in ('csv', 'json', 'excel'):
        cases.append({'kind': 'lookahead', 'n': 600, 'steps': [{'t': 'dump', 'format': fmt}], 'sparse': None})
    for n in (250, 1000):
        cases.append({'kind': 'lookahead', 'n': n, 'steps': [{'t': 'probe_row'}], 'sparse': None, 'sized': True})
        cases.append({'kind': 'lookahead', 'n': n, 'steps': [{'t': 'unique'}, {'t': 'probe_row'}], 'sparse': None})
        cases.append({'kind': 'lookahead', 'n': n, 'steps': [{'t': 'unique'}, {'t': 'dump', 'format': 'csv'}], 'sparse': None})
    # a flow consumed by another flow through load((descriptor, resources)): the boundary must stay lazy
    for n in ([600] if tier != 'thorough' else [600, 20000]):
        for cast in (None, 'schema'):
            cases.append({'kind': 'boundary', 'n': n, 'cast': cast})
    # load(limit_rows=K): once K rows are delivered nothing more may be pulled from the source
    for n in ([40, 5000] if tier != 'thorough' else [40, 5000, 100000]):
        for k in (1, 10):
            cases.append({'kind': 'limit', 'n': n, 'limit': k})
    return cases


def run_limit(case):
    import dataflows as DF
    from dataflows import Flow
    pulled = [0]

    def gen():
        for i in range(case['n']):
            pulled[0] += 1
            yield {'i': i}
    desc = {'resources': [{'name': 'r', 'path': 'r.csv', 'schema': {'fields': [{'name': 'i', 'type': 'integer'}]}}]}
    try:
        with quiet():
            r = Flow(DF.load((desc, [gen()]), limit_rows=case['limit'])).results()[0]
        return {'outcome': 'returned', 'deliveries': len(r[0]), 'pulls': pulled[0]}
    except Exception as e:
        return {'outcome': ['raised', type(e).__name__, str(e)[:200]]}


def run_boundary(case):
    import dataflows as DF
    from dataflows import Flow
    pulled = [0]

    def gen():
        for i in range(case['n']):
            pulled[0] += 1
            yield {'i': i}
    try:
        with quiet():
            inner = Flow(gen()).datastream()
            kw = {'cast_strategy': DF.load.CAST_WITH_SCHEMA} if case['cast'] == 'schema' else {}
            outer = Flow(DF.load((inner.dp.descriptor, inner.res_iter), **kw)).datastream()
            la, delivered = [], 0
            for res in outer.res_iter:
                for row in res:
                    delivered += 1
                    la.append(pulled[0] - delivered)
        return {'outcome': 'returned', 'max_lookahead': max(la) if la else 0, 'deliveries': delivered, 'pulls': pulled[0]}
    except Exception as e:
        return {'outcome': ['raised', type(e).__name__, str(e)[:200]]}


def run_impl(case):
    if case['kind'] == 'limit':
        return run_limit(case)
    if case['kind'] == 'boundary':
        return run_boundary(case)
    out = run_pipeline(case['n'], case['steps'], os.path.join(scratch(), 'c6_%s' % digest(case)), sparse=case.get('sparse'), sized=case.get('sized', False))
    pulled, la = 0, []
    for e in out['events']:
        if e[0] == 'pull':
            pulled += 1
        elif e[0] == 'deliver':
            la.append(pulled - e[1])
    res = {'outcome': out['outcome'], 'max_lookahead': max(la) if la else 0, 'deliveries': len(la), 'pulls': pulled}
    if case['n'] <= 300:
        res['events'] = out['events']
    return res


def oracle(case, out):
    if out['outcome'] != 'returned':
        return 'pipeline failed: %r' % (out['outcome'],)
    if case['kind'] == 'limit':
        want = min(case['limit'], case['n'])
        if out['deliveries'] != want:
            return 'load(limit_rows=%d) of %d rows delivered %d rows' % (case['limit'], case['n'], out['deliveries'])
        if out['pulls'] - out['deliveries'] > SAMPLE:
            return 'load(limit_rows=%d) of %d rows: %d rows were pulled from the source for %d delivered' % (
                case['limit'], case['n'], out['pulls'], out['deliveries'])
        return None
    if out['pulls'] != case['n']:
        return 'the source handed out %d rows of %d' % (out['pulls'], case['n'])
    bound = SAMPLE
    if out['max_lookahead'] > bound:
        return 'stream of %d rows: %d rows were read ahead of the row being delivered (bound: the inference sample size %d)' % (
            case['n'], out['max_lookahead'], bound)
    return None


def coq_term(case, out):
    if case['kind'] in ('limit', 'boundary') or 'events' not in out:
        return None
    return coq_trace_term(case['n'], case['steps'], out)


def nontrivial(case, out):
    return case['n'] > SAMPLE


def shrinks(case):
    for i in range(len(case.get('steps', []))):
        if len(case['steps']) > 1:
            c = copy.deepcopy(case)
            del c['steps'][i]
            yield c
