(* C07: resuming from a checkpoint reproduces the first run. *)
From Coq Require Import List ZArith Bool.
From DF Require Import Base.Str Base.Value IO.EJson IO.EJson_proofs IO.EJsonInst IO.JsonText IO.JsonText_proofs IO.JsonLine_proofs IO.Stream IO.Stream_proofs IO.StreamText_proofs IO.SortKeys IO.SortKeys_proofs IO.SortKeysRT_proofs.
From Coq Require Import Permutation Sorted.
Import ListNotations.
Open Scope Z_scope.

(* extended JSON round-trips every value it represents faithfully (any nesting depth);
   hypotheses: Python's scalar text codecs satisfy parse (print x) = x *)
Theorem C07_ejson_roundtrip : forall K dec_str dec_parse time_str time_parse dt_str dt_parse date_str date_parse dur_str dur_parse,
  (forall m e, dec_parse (dec_str m e) = Some (m, e)) ->
  (forall h mi sc, time_parse (time_str h mi sc) = Some (h, mi, sc)) ->
  (forall y mo d h mi sc, dt_parse (dt_str y mo d h mi sc) = Some (y, mo, d, h, mi, sc)) ->
  (forall y mo d, date_parse (date_str y mo d) = Some (y, mo, d)) ->
  (forall d sc us, dur_parse (dur_str d sc us) = Some (d, sc, us)) ->
  str_nodup [k_dec K; k_time K; k_dt K; k_date K; k_dur K; k_set K] = true ->
  forall v, ejson_ok K v = true ->
  decode K dec_parse time_parse dt_parse date_parse dur_parse (encode K dec_str time_str dt_str date_str dur_str v) = v.
Proof. exact ejson_roundtrip. Qed.
Print Assumptions C07_ejson_roundtrip.

Theorem C07_reserved_keys_distinct :
  str_nodup [k_dec real_keys; k_time real_keys; k_dt real_keys; k_date real_keys; k_dur real_keys; k_set real_keys] = true.
Proof. vm_compute. reflexivity. Qed.
Print Assumptions C07_reserved_keys_distinct.

(* the JSON text layer: json.loads (json.dumps j) = j for every tree without binary floats whose strings are
   valid code points -- integers of any size, every escape class of ensure_ascii (quote, backslash, control
   characters, \uXXXX, surrogate pairs), arrays and objects of any depth; also with the trailing line feed *)
Theorem C07_json_text_roundtrip : forall j, jok j -> jparse (jprint j) = Some j.
Proof. exact jparse_jprint. Qed.
Print Assumptions C07_json_text_roundtrip.

Theorem C07_json_text_roundtrip_line : forall j, jok j -> jparse (jprint j ++ [10]) = Some j.
Proof. exact jparse_jprint_line. Qed.
Print Assumptions C07_json_text_roundtrip_line.

(* text and tree layers composed: a written line reads back as the value it was written from *)
Theorem C07_line_roundtrip : forall K dec_str dec_parse time_str time_parse dt_str dt_parse date_str date_parse dur_str dur_parse,
  (forall m e, dec_parse (dec_str m e) = Some (m, e)) ->
  (forall h mi sc, time_parse (time_str h mi sc) = Some (h, mi, sc)) ->
  (forall y mo d h mi sc, dt_parse (dt_str y mo d h mi sc) = Some (y, mo, d, h, mi, sc)) ->
  (forall y mo d, date_parse (date_str y mo d) = Some (y, mo, d)) ->
  (forall d sc us, dur_parse (dur_str d sc us) = Some (d, sc, us)) ->
  str_nodup [k_dec K; k_time K; k_dt K; k_date K; k_dur K; k_set K] = true ->
  forall v, ejson_ok K v = true -> jok (encode K dec_str time_str dt_str date_str dur_str v) ->
  read_line K dec_parse time_parse dt_parse date_parse dur_parse
    (write_line K dec_str time_str dt_str date_str dur_str v) = Some v.
Proof. exact line_roundtrip. Qed.
Print Assumptions C07_line_roundtrip.

(* the same with the premise about the tree discharged from the value: no binary float inside, every string and
   key a sequence of valid code points (text_ok), printable codec outputs and reserved key names *)
Theorem C07_line_roundtrip_values : forall K dec_str dec_parse time_str time_parse dt_str dt_parse date_str date_parse dur_str dur_parse,
  (forall m e, dec_parse (dec_str m e) = Some (m, e)) ->
  (forall h mi sc, time_parse (time_str h mi sc) = Some (h, mi, sc)) ->
  (forall y mo d h mi sc, dt_parse (dt_str y mo d h mi sc) = Some (y, mo, d, h, mi, sc)) ->
  (forall y mo d, date_parse (date_str y mo d) = Some (y, mo, d)) ->
  (forall d sc us, dur_parse (dur_str d sc us) = Some (d, sc, us)) ->
  str_nodup [k_dec K; k_time K; k_dt K; k_date K; k_dur K; k_set K] = true ->
  Forall char_ok (k_dec K) /\ Forall char_ok (k_time K) /\ Forall char_ok (k_dt K) /\ Forall char_ok (k_date K) /\ Forall char_ok (k_dur K) ->
  (forall m e, Forall char_ok (dec_str m e)) -> (forall h mi sc, Forall char_ok (time_str h mi sc)) ->
  (forall y mo d h mi sc, Forall char_ok (dt_str y mo d h mi sc)) -> (forall y mo d, Forall char_ok (date_str y mo d)) ->
  (forall d sc us, Forall char_ok (dur_str d sc us)) ->
  forall v, ejson_ok K v = true -> text_ok v ->
  read_line K dec_parse time_parse dt_parse date_parse dur_parse
    (write_line K dec_str time_str dt_str date_str dur_str v) = Some v.
Proof. exact line_roundtrip_values. Qed.
Print Assumptions C07_line_roundtrip_values.

(* the stream file format round-trips: every resource and every row, in order, empty resources included *)
Theorem C07_stream_roundtrip : forall (D R : Type) (encD : D -> line) decD (encR : R -> line) decR nres,
  (forall d, decD (encD d) = Some d) -> (forall r, decR (encR r) = Some r) ->
  (forall d, encD d <> []) -> (forall r, encR r <> []) ->
  forall d rss, nres d = length rss ->
  unstream_lines D R decD decR nres (stream_lines D R encD encR (d, rss)) = Some (d, rss).
Proof. exact stream_roundtrip. Qed.
Print Assumptions C07_stream_roundtrip.

(* json.dumps output (ensure_ascii) is printable ASCII for every tree: a written line holds no line break of any kind *)
Theorem C07_json_text_is_printable_ascii : forall j, Forall (fun c => 32 <= c <= 126) (jprint j).
Proof. exact jprint_printable. Qed.
Print Assumptions C07_json_text_is_printable_ascii.

(* the text of a file written line by line splits back into exactly those lines *)
Theorem C07_file_lines_recovered : forall ls,
  Forall (Forall (fun c => 32 <= c <= 126)) ls -> split_lines (file_text ls) = ls.
Proof. exact split_file_text. Qed.
Print Assumptions C07_file_lines_recovered.

(* composition of the three layers (file text, stream framing, JSON line codec): the text written by stream / checkpoint,
   split into lines and decoded, is the package that was written -- the descriptor and every row of every resource, in
   order, empty resources included -- for all values in the codec's domain (no binary floats, valid code points) *)
Theorem C07_stream_file_roundtrip : forall K dec_str dec_parse time_str time_parse dt_str dt_parse date_str date_parse dur_str dur_parse nres,
  (forall m e, dec_parse (dec_str m e) = Some (m, e)) ->
  (forall h mi sc, time_parse (time_str h mi sc) = Some (h, mi, sc)) ->
  (forall y mo d h mi sc, dt_parse (dt_str y mo d h mi sc) = Some (y, mo, d, h, mi, sc)) ->
  (forall y mo d, date_parse (date_str y mo d) = Some (y, mo, d)) ->
  (forall d sc us, dur_parse (dur_str d sc us) = Some (d, sc, us)) ->
  str_nodup [k_dec K; k_time K; k_dt K; k_date K; k_dur K; k_set K] = true ->
  Forall char_ok (k_dec K) /\ Forall char_ok (k_time K) /\ Forall char_ok (k_dt K) /\ Forall char_ok (k_date K) /\ Forall char_ok (k_dur K) ->
  (forall m e, Forall char_ok (dec_str m e)) -> (forall h mi sc, Forall char_ok (time_str h mi sc)) ->
  (forall y mo d h mi sc, Forall char_ok (dt_str y mo d h mi sc)) -> (forall y mo d, Forall char_ok (date_str y mo d)) ->
  (forall d sc us, Forall char_ok (dur_str d sc us)) ->
  let enc := fun v => jprint (encode K dec_str time_str dt_str date_str dur_str v) in
  let dec := read_line K dec_parse time_parse dt_parse date_parse dur_parse in
  let ok := fun v => ejson_ok K v = true /\ text_ok v in
  forall d rss, ok d -> Forall (Forall ok) rss -> nres d = length rss ->
  unstream_lines value value dec dec nres (split_lines (file_text (stream_lines value value enc enc (d, rss)))) = Some (d, rss).
Proof. exact stream_file_roundtrip. Qed.
Print Assumptions C07_stream_file_roundtrip.

(* every run of every run/delete history returns the first run's package; the steps before the
   checkpoint execute exactly when no checkpoint exists (first run, or after the directory was removed) *)
Theorem C07_history : forall (D R : Type) (encD : D -> line) decD (encR : R -> line) decR nres,
  (forall d, decD (encD d) = Some d) -> (forall r, decR (encR r) = Some r) ->
  (forall d, encD d <> []) -> (forall r, encR r <> []) ->
  forall final active, active <> final ->
  forall up, nres (fst up) = length (snd up) ->
  forall h s, ckpt_inv D R encD encR final up s ->
  history D R encD decD encR decR nres final active up h s = expected D R up h (has_ckpt final s).
Proof. exact history_invariant. Qed.
Print Assumptions C07_history.

(* known finding C07.subsecond_and_time_zone_lost, stated on the model: the faithful
   encoder drops microseconds, so the round trip is NOT the identity there *)
Theorem C07_microseconds_dropped_refuted :
  rt_model (VTime 1 2 3 5) = VTime 1 2 3 0 /\ rt_model (VDT 2020 1 2 3 4 5 6 None) = VDT 2020 1 2 3 4 5 0 None.
Proof. vm_compute. split; reflexivity. Qed.
Print Assumptions C07_microseconds_dropped_refuted.

(* sort_keys=True in stream.py's write(): the line written for a row does not depend on the order of the row's keys
   (rows that are the same mapping give the same line, so a resumed run cannot tell them apart) ... *)
Theorem C07_row_line_independent_of_key_order : forall l l' : list (str * json),
  NoDup (keys json l) -> Permutation l l' -> sorted_text (JObj l) = sorted_text (JObj l').
Proof. exact sorted_text_row_perm. Qed.
Print Assumptions C07_row_line_independent_of_key_order.

(* ... at every depth of nesting ... *)
Theorem C07_line_independent_of_key_order_at_every_depth : forall j j', jperm j j' -> sorted_text j = sorted_text j'.
Proof. exact sorted_text_jperm. Qed.
Print Assumptions C07_line_independent_of_key_order_at_every_depth.

(* ... and the sorting writes exactly the members it was given, in strictly ascending key order *)
Theorem C07_sorted_members_are_the_members : forall (A : Type) (l : list (str * A)),
  Permutation l (sort_members l) /\ (NoDup (keys A l) -> Sorted (key_lt A) (sort_members l)).
Proof. intros A l. split; [apply sort_members_is_perm | apply sort_members_sorted]. Qed.
Print Assumptions C07_sorted_members_are_the_members.

(* a tree that was written, read back and is written again (a checkpoint behind a checkpoint, a second run of the same flow)
   gives the same line again: the sorting is idempotent on every tree a Python value can give (no duplicate keys) *)
Theorem C07_sorted_line_stable_under_rewriting : forall j, jnodup j ->
  jsort (jsort j) = jsort j /\ sorted_text (jsort j) = sorted_text j.
Proof. intros j Hj. split; [apply jsort_idem; exact Hj | apply sorted_text_idem; exact Hj]. Qed.
Print Assumptions C07_sorted_line_stable_under_rewriting.

(* the tree actually written (keys sorted) reads back as the value with the members of every object in key order: the same
   mapping at every depth, another order of keys at most (stream writes with sort_keys=True, unstream reads with the hook) *)
Theorem C07_sorted_tree_reads_back_as_the_same_mapping :
  forall K dec_str dec_parse time_str time_parse dt_str dt_parse date_str date_parse dur_str dur_parse,
  (forall m e, dec_parse (dec_str m e) = Some (m, e)) ->
  (forall h mi sc, time_parse (time_str h mi sc) = Some (h, mi, sc)) ->
  (forall y mo d h mi sc, dt_parse (dt_str y mo d h mi sc) = Some (y, mo, d, h, mi, sc)) ->
  (forall y mo d, date_parse (date_str y mo d) = Some (y, mo, d)) ->
  (forall d sc us, dur_parse (dur_str d sc us) = Some (d, sc, us)) ->
  str_nodup [k_dec K; k_time K; k_dt K; k_date K; k_dur K; k_set K] = true ->
  forall v, ejson_ok K v = true ->
  decode K dec_parse time_parse dt_parse date_parse dur_parse (jsort (encode K dec_str time_str dt_str date_str dur_str v)) = vsort v.
Proof. exact sorted_roundtrip. Qed.
Print Assumptions C07_sorted_tree_reads_back_as_the_same_mapping.

Theorem C07_read_back_members_are_the_written_members : forall l : list (str * value),
  Permutation (map (fun kv => (fst kv, vsort (snd kv))) l) (match vsort (VObj l) with VObj m => m | _ => [] end).
Proof. exact vsort_same_members. Qed.
Print Assumptions C07_read_back_members_are_the_written_members.

Example C07_sort_keys_nonvacuous :
  let a := [([98], JInt 1); ([97], JObj [([122], JNull); ([65], JBool true)])] in
  let b := [([97], JObj [([122], JNull); ([65], JBool true)]); ([98], JInt 1)] in
  NoDup (keys json a) /\ Permutation a b /\ sorted_text (JObj a) = sorted_text (JObj b) /\ jprint (JObj a) <> jprint (JObj b)
  /\ jnodup (JObj a) /\ jsort (JObj a) <> JObj a.
Proof.
  cbv zeta. split; [|split; [|split; [|split; [|split]]]].
  - repeat constructor; cbn; intuition discriminate.
  - apply perm_swap.
  - vm_compute. reflexivity.
  - vm_compute. discriminate.
  - cbn. repeat split; repeat constructor; cbn; intuition discriminate.
  - vm_compute. discriminate.
Qed.

From Coq Require Import String.
Local Open Scope string_scope.
Example C07_nonvacuous :
  let v := VObj [(s "a", VDec 150 (-2)); (s "b", VList [VDT 2020 1 2 3 4 5 0 (Some (-18000, Some (s "EST"))); VNull]);
                 (s "c", VObj [(s "d", VDate 1999 12 31)])] in
  ejson_ok real_keys v = true /\ rt_model v = v.
Proof. vm_compute. split; reflexivity. Qed.

(* the read-back theorem on a value whose keys are not in order: the sorting matters (the value comes back re-ordered) and
   the model's round trip with sorting gives exactly vsort *)
Example C07_sorted_roundtrip_nonvacuous :
  let v := VObj [(s "b", VInt 1); (s "a", VObj [(s "z", VDec 150 (-2)); (s "c", VDate 1999 12 31)])] in
  ejson_ok real_keys v = true /\ rt_sorted v = vsort v /\ vsort v <> v.
Proof. vm_compute. split; [reflexivity | split; [reflexivity | discriminate]]. Qed.
