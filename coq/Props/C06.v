(* C06: row-wise pipelines stream with bounded look-ahead. *)
From Coq Require Import List ZArith Bool.
From DF Require Import Base.Str Base.Value Frame.Events Frame.Events_proofs Gen.Consts.
Import ListNotations.
Local Open Scope nat_scope.

(* For every stream length n and every chain of row-wise steps, at every delivery the number of rows
   pulled from the source minus the index of the row being delivered is at most the inference sample
   size K -- a constant that does not depend on n. *)
Theorem C06_lookahead_bounded : forall rowf n K gs,
  1 <= K -> Forall nice gs -> Forall (fun v => v <= K) (la 0 (lmaps gs (source rowf n K))).
Proof. exact pipeline_lookahead_bounded. Qed.
Print Assumptions C06_lookahead_bounded.

(* tie to the source: K is the SAMPLE_SIZE of iterable_storage, regenerated on every run *)
Theorem C06_sample_size_from_source : forall rowf n gs,
  Forall nice gs -> Forall (fun v => v <= Z.to_nat c_sample_size) (la 0 (lmaps gs (source rowf n (Z.to_nat c_sample_size)))).
Proof. intros. apply pipeline_lookahead_bounded; [vm_compute; repeat constructor|assumption]. Qed.
Print Assumptions C06_sample_size_from_source.

Theorem C06_row_steps_are_synchronous : forall k f, nice (g_row k f).
Proof. exact nice_row. Qed.
Theorem C06_filter_steps_are_synchronous : forall k c, nice (g_filter k c).
Proof. exact nice_filter. Qed.
Theorem C06_expanding_steps_are_synchronous : forall k f, nice (g_many k f).
Proof. exact nice_many. Qed.
Theorem C06_observers_are_synchronous : forall k, nice (g_observe k).
Proof. exact nice_observe. Qed.
Print Assumptions C06_observers_are_synchronous.

(* the predicate is not vacuous: a buffering step reads everything before delivering anything *)
Theorem C06_buffering_step_is_not_bounded :
  la 0 (materialise (fun l => l) (source (fun _ => []) 3 1)) = [3; 2; 1].
Proof. exact materialise_not_bounded. Qed.
Print Assumptions C06_buffering_step_is_not_bounded.
