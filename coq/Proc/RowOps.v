(* filter_rows, deduplicate, unpivot: row phase and schema phase, following
   dataflows/processors/{filter_rows,deduplicate,unpivot}.py statement by statement. *)
From Coq Require Import List ZArith Bool Lia.
From DF Require Import Base.Str Base.Value.
Import ListNotations.
Open Scope Z_scope.

Definition E_KEY : Z := 1.       (* KeyError *)
Definition E_TYPE : Z := 2.      (* TypeError *)
Definition E_ASSERT : Z := 3.    (* AssertionError *)
Definition E_OTHER : Z := 9.

(* ---------- filter_rows ---------- *)

(* any((row[k] == v) for o in conds for k, v in o.items()); [neg] = not_equals *)
Fixpoint any_cond (neg : bool) (conds : list (str * value)) (r : row) : res bool :=
  match conds with
  | [] => Ok false
  | (k, v) :: cs =>
      match rget r k with
      | None => Err E_KEY
      | Some x => if xorb neg (py_eq x v) then Ok true else any_cond neg cs r
      end
  end.

(* old_style_conditions: any(equals) or any(not_equals), short-circuit *)
Definition old_style (equals not_equals : list (str * value)) (r : row) : res bool :=
  match any_cond false equals r with
  | Err c => Err c
  | Ok true => Ok true
  | Ok false => any_cond true not_equals r
  end.

(* process_resource: for row in rows: if condition(row): yield row *)
Fixpoint filter_loop (cond : row -> res bool) (rows : list row) : res (list row) :=
  match rows with
  | [] => Ok []
  | r :: rs =>
      match cond r with
      | Err c => Err c
      | Ok b =>
          match filter_loop cond rs with
          | Err c => Err c
          | Ok out => Ok (if b then r :: out else out)
          end
      end
  end.

(* A small language of user conditions for the callable form; the harness
   builds the same closure in Python. *)
Inductive pexpr :=
| PEq (k : str) (v : value)        (* row.get(k) == v *)
| PIsNull (k : str)                (* row.get(k) is None *)
| PIntLt (k : str) (z : Z)         (* isinstance(row.get(k), int) and row.get(k) < z *)
| PNot (p : pexpr)
| PAnd (p q : pexpr)
| POr (p q : pexpr)
| PTrue.

Fixpoint peval (p : pexpr) (r : row) : bool :=
  match p with
  | PEq k v => py_eq (rget0 r k) v
  | PIsNull k => is_null (rget0 r k)
  | PIntLt k z => match rget0 r k with VInt x => x <? z | VBool b => (if b then 1 else 0) <? z | _ => false end
  | PNot p => negb (peval p r)
  | PAnd p q => peval p r && peval q r
  | POr p q => peval p r || peval q r
  | PTrue => true
  end.

(* ---------- deduplicate ---------- *)

Fixpoint key_of (pk : list str) (r : row) : res (list value) :=
  match pk with
  | [] => Ok []
  | k :: ks =>
      match rget r k with
      | None => Err E_KEY
      | Some v => match key_of ks r with Err c => Err c | Ok vs => Ok (v :: vs) end
      end
  end.

Fixpoint key_eq (a b : list value) : bool :=
  match a, b with
  | [], [] => true
  | x :: a', y :: b' => py_eq x y && key_eq a' b'
  | _, _ => false
  end.

Definition key_in (k : list value) (seen : list (list value)) : bool := existsb (key_eq k) seen.

Fixpoint dedup_loop (pk : list str) (seen : list (list value)) (rows : list row) : res (list row) :=
  match rows with
  | [] => Ok []
  | r :: rs =>
      match key_of pk r with
      | Err c => Err c
      | Ok k =>
          if key_in k seen then dedup_loop pk seen rs
          else match dedup_loop pk (k :: seen) rs with
               | Err c => Err c
               | Ok out => Ok (r :: out)
               end
      end
  end.

(* deduper: no primary key => yield from rows *)
Definition deduper (pk : list str) (rows : list row) : res (list row) :=
  match pk with
  | [] => Ok rows
  | _ => dedup_loop pk [] rows
  end.

(* ---------- unpivot ---------- *)

(* One entry of unpivot_fields after regex resolution: which schema field
   names it matches (decided by the real `re`, or literally when regex=False)
   and, per matched field name, the derived key values. *)
Record uspec := {
  u_match : str -> bool;
  u_keys : str -> row            (* field name -> {'key': value,...} after re.sub *)
}.

(* the package phase: partition the field names spec by spec *)
Fixpoint unpivot_config (specs : list uspec) (fields : list str)
  : list (str * row) * list str :=          (* (fields to unpivot with their keys, fields to keep) *)
  match specs with
  | [] => ([], fields)
  | u :: us =>
      let to_pivot := filter (u_match u) fields in
      let rest := filter (fun f => negb (u_match u f)) fields in
      let '(piv, keep) := unpivot_config us rest in
      (map (fun f => (f, u_keys u f)) to_pivot ++ piv, keep)
  end.

(* new_row = deepcopy(keys); for field in keep: new_row[field] = row[field] *)
Fixpoint copy_kept (keep : list str) (r : row) (acc : row) : res row :=
  match keep with
  | [] => Ok acc
  | f :: fs =>
      match rget r f with
      | None => Err E_KEY
      | Some v => copy_kept fs r (rset acc f v)
      end
  end.

Definition unpivot_cell (keep : list str) (value_name : str) (r : row) (pf : str * row) : res row :=
  match copy_kept keep r (snd pf) with
  | Err c => Err c
  | Ok nr => Ok (rset nr value_name (rget0 r (fst pf)))
  end.

Fixpoint unpivot_row (piv : list (str * row)) (keep : list str) (value_name : str) (r : row)
  : res (list row) :=
  match piv with
  | [] => Ok []
  | pf :: ps =>
      match unpivot_cell keep value_name r pf with
      | Err c => Err c
      | Ok nr => match unpivot_row ps keep value_name r with
                 | Err c => Err c
                 | Ok out => Ok (nr :: out)
                 end
      end
  end.

Fixpoint unpivot_rows (piv : list (str * row)) (keep : list str) (value_name : str) (rows : list row)
  : res (list row) :=
  match rows with
  | [] => Ok []
  | r :: rs =>
      match unpivot_row piv keep value_name r with
      | Err c => Err c
      | Ok a => match unpivot_rows piv keep value_name rs with
                | Err c => Err c
                | Ok b => Ok (a ++ b)
                end
      end
  end.

Definition unpivot_model (specs : list uspec) (fields : list str) (value_name : str) (rows : list row)
  : res (list row) :=
  let '(piv, keep) := unpivot_config specs fields in
  unpivot_rows piv keep value_name rows.

(* schema phase: names of the resulting fields *)
Definition unpivot_schema (specs : list uspec) (fields : list str) (extra_keys : list str) (value_name : str)
  : list str :=
  snd (unpivot_config specs fields) ++ extra_keys ++ [value_name].

(* table-backed functions for case files *)
Definition tbl_match (names : list str) : str -> bool := fun f => str_in f names.
Fixpoint tbl_keys (t : list (str * row)) (f : str) : row :=
  match t with
  | [] => []
  | (k, r) :: t' => if str_eqb f k then r else tbl_keys t' f
  end.
Definition mk_uspec (names : list str) (t : list (str * row)) : uspec :=
  {| u_match := tbl_match names; u_keys := tbl_keys t |}.
