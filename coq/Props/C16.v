(* C16: resource-level restructuring conserves rows. *)
From Coq Require Import List ZArith Bool Permutation.
From DF Require Import Base.Str Base.Lits Base.ListX Base.Value Proc.RowOps Proc.Fields Proc.Resources Proc.Resources_proofs Proc.ConcatSchema_proofs Proc.AutoName Proc.AutoName_proofs Gen.Consts.
Import ListNotations.
Open Scope Z_scope.

(* concatenate: target at the position of the first selected resource, everything else untouched *)
Theorem C16_concat_position : forall sel t pre run post,
  none_sel sel pre -> all_sel sel run -> run <> [] -> none_sel sel post ->
  concat_resources sel t CPrefix (pre ++ run ++ post) = Ok (pre ++ t :: post).
Proof. exact concat_position. Qed.
Print Assumptions C16_concat_position.

Theorem C16_concat_nothing_selected : forall sel t p,
  none_sel sel p -> concat_resources sel t CPrefix p = Ok (p ++ [t]).
Proof. exact concat_nothing_selected. Qed.
Print Assumptions C16_concat_nothing_selected.

Theorem C16_concat_rejects_nonconsecutive : forall sel t pre run mid r post,
  none_sel sel pre -> all_sel sel run -> run <> [] -> none_sel sel mid -> mid <> [] -> sel (r_name r) = true ->
  concat_resources sel t CPrefix (pre ++ run ++ mid ++ r :: post) = Err E_ASSERT.
Proof. exact concat_rejects_nonconsecutive. Qed.
Print Assumptions C16_concat_rejects_nonconsecutive.

(* all rows of the selected resources, in order, one output row per input row *)
Theorem C16_concat_rows_one_per_row : forall m targets rows out,
  concat_rows m targets rows = Ok out ->
  length out = length rows /\
  forall i r, nth_error rows i = Some r -> exists o, nth_error out i = Some o /\ concat_row m targets r = Ok o.
Proof. exact concat_rows_spec. Qed.
Print Assumptions C16_concat_rows_one_per_row.

Theorem C16_concat_rows_in_resource_order : forall m targets a b oa ob,
  concat_rows m targets a = Ok oa -> concat_rows m targets b = Ok ob ->
  concat_rows m targets (a ++ b) = Ok (oa ++ ob).
Proof. exact concat_rows_app. Qed.
Print Assumptions C16_concat_rows_in_resource_order.

(* mapped onto the target fields (nulls for absent ones): keys are exactly the target fields *)
Theorem C16_concat_row_has_target_fields : forall m targets r o,
  (forall a b, lookup_str m a = Some b -> In b targets) ->
  concat_row m targets r = Ok o -> rkeys o = targets.
Proof. exact concat_row_keys. Qed.
Print Assumptions C16_concat_row_has_target_fields.

(* the target's schema, whatever the selected resources look like: exactly the requested target fields, each once ... *)
Theorem C16_concat_schema_fields : forall m targets selected,
  Permutation (map fst (fst (concat_schema m targets selected))) targets.
Proof. exact concat_schema_fields. Qed.
Print Assumptions C16_concat_schema_fields.

(* ... each typed by a field of a selected resource that the mapping sends to it, or as a string when none does ... *)
Theorem C16_concat_schema_types : forall m targets selected n ty,
  In (n, ty) (fst (concat_schema m targets selected)) ->
  (exists r f, In r selected /\ In f (r_fields r) /\ lookup_str m (fst f) = Some n /\ snd f = ty) \/ ty = s_string.
Proof. exact concat_schema_types. Qed.
Print Assumptions C16_concat_schema_types.

(* ... and a primary key that names declared fields only (a key field renamed by the mapping appears under its new name) *)
Theorem C16_concat_schema_pk_declared : forall m targets selected,
  incl (snd (concat_schema m targets selected)) (map fst (fst (concat_schema m targets selected))).
Proof. exact concat_schema_pk_declared. Qed.
Print Assumptions C16_concat_schema_pk_declared.

(* the mapping built from the field specification (when it is accepted) sends source names to requested targets only: the
   premise of C16_concat_row_has_target_fields always holds *)
Theorem C16_mapping_into_targets : forall fields m,
  build_mapping fields [] = Ok m -> forall a b, lookup_str m a = Some b -> In b (map fst fields).
Proof. exact build_mapping_into_targets. Qed.
Print Assumptions C16_mapping_into_targets.

(* duplicate: exact copy, placed right after the original or at the end; the rest unchanged *)
Theorem C16_duplicate_copy_is_exact : forall w rows,
  Z.of_nat (length rows) <= 16 ^ Z.of_nat w -> dup_copy w rows = rows.
Proof. exact dup_copy_eq. Qed.
Print Assumptions C16_duplicate_copy_is_exact.

Theorem C16_duplicate_position : forall w src tn tp pre r post,
  (forall x, In x pre -> r_name x <> src) -> r_name r = src -> (forall x, In x post -> r_name x <> src) ->
  Z.of_nat (length (r_rows r)) <= 16 ^ Z.of_nat w ->
  duplicate w src tn tp false (pre ++ r :: post) = pre ++ r :: dup_of src tn tp r :: post /\
  duplicate w src tn tp true (pre ++ r :: post) = pre ++ r :: post ++ [dup_of src tn tp r].
Proof. exact duplicate_position. Qed.
Print Assumptions C16_duplicate_position.

(* tie to the source: width of the row key used by duplicate's store (regenerated) *)
Theorem C16_duplicate_key_width_from_source : c_dup_key_width = 8%nat.
Proof. reflexivity. Qed.
Print Assumptions C16_duplicate_key_width_from_source.

(* delete_resource removes exactly the selected resources *)
Theorem C16_delete_removes_exactly : forall sel p r,
  In r (delete_resource sel p) <-> In r p /\ sel (r_name r) = false.
Proof. exact delete_removes_exactly. Qed.
Print Assumptions C16_delete_removes_exactly.

Theorem C16_delete_keeps_order : forall sel p, subseq (delete_resource sel p) p.
Proof. exact delete_keeps_order. Qed.
Print Assumptions C16_delete_keeps_order.

(* sources append after the existing resources *)
Theorem C16_append_after : forall p new, exists rest, append_resources p new = p ++ rest /\ rest = new.
Proof. exact append_after. Qed.
Print Assumptions C16_append_after.

(* automatic names of bare iterables (iterable_loader.process_datapackage, fix f9060c2): the name given is new, it is
   res_<count+1> when that is free and the first free number after it otherwise, and names stay pairwise distinct over
   every history of additions, deletions and explicitly named additions *)
Theorem C16_auto_name_is_new : forall names, ~ In (Auto (auto_index names)) names.
Proof. exact auto_index_fresh. Qed.
Print Assumptions C16_auto_name_is_new.

Theorem C16_auto_name_is_first_free : forall names,
  (S (length names) <= auto_index names)%nat /\
  forall j, (S (length names) <= j < auto_index names)%nat -> In (Auto j) names.
Proof. exact auto_index_least. Qed.
Print Assumptions C16_auto_name_is_first_free.

Theorem C16_auto_names_distinct_over_histories : forall ops names names',
  NoDup names -> nrun names ops = Some names' -> NoDup names'.
Proof. exact nrun_nodup. Qed.
Print Assumptions C16_auto_names_distinct_over_histories.

(* the rule before the fix (res_<count+1> unconditionally) is refuted by a one-resource package named res_2 *)
Theorem C16_old_auto_name_rule_refuted : exists names, NoDup names /\ ~ NoDup (old_add_auto names).
Proof. exact old_add_auto_refuted. Qed.
Print Assumptions C16_old_auto_name_rule_refuted.
