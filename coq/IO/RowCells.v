(* How a file dumper lays a row out under its header (csv.DictWriter: one cell per header name, looked up in the row by
   name; a name the row lacks gives the null cell), as opposed to taking the row's values in the row's own order. *)
From Coq Require Import List ZArith Bool.
From DF Require Import Base.Str Base.Value.
Import ListNotations.

Definition row_cells (headers : list str) (r : row) : list value := map (rget0 r) headers.

(* the positional reading: the row's values as they come *)
Definition row_values (r : row) : list value := map snd r.

Definition cell_text (v : value) : str := match v with VStr t => t | _ => [] end.

(* the records of a CSV file holding string-valued rows under the given header *)
Definition csv_records (headers : list str) (rows : list row) : list (list str) :=
  headers :: map (fun r => map cell_text (row_cells headers r)) rows.
