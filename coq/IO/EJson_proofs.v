From Coq Require Import List ZArith Bool Lia.
From DF Require Import Base.Str Base.Str_proofs Base.Value Base.Value_proofs IO.EJson.
Import ListNotations.
Open Scope Z_scope.

Section RT.
  Variable K : rkeys.
  Variable dec_str : Z -> Z -> str.            Variable dec_parse : str -> option (Z * Z).
  Variable time_str : Z -> Z -> Z -> str.      Variable time_parse : str -> option (Z * Z * Z).
  Variable dt_str : Z -> Z -> Z -> Z -> Z -> Z -> str.
  Variable dt_parse : str -> option (Z * Z * Z * Z * Z * Z).
  Variable date_str : Z -> Z -> Z -> str.      Variable date_parse : str -> option (Z * Z * Z).
  Variable dur_str : Z -> Z -> Z -> str.       Variable dur_parse : str -> option (Z * Z * Z).

  (* what is assumed of Python's scalar text codecs: parse (print x) = x *)
  Hypothesis dec_rt : forall m e, dec_parse (dec_str m e) = Some (m, e).
  Hypothesis time_rt : forall h mi sc, time_parse (time_str h mi sc) = Some (h, mi, sc).
  Hypothesis dt_rt : forall y mo d h mi sc, dt_parse (dt_str y mo d h mi sc) = Some (y, mo, d, h, mi, sc).
  Hypothesis date_rt : forall y mo d, date_parse (date_str y mo d) = Some (y, mo, d).
  Hypothesis dur_rt : forall d sc us, dur_parse (dur_str d sc us) = Some (d, sc, us).

  (* the reserved keys are pairwise different (checked by computation for the real keys) *)
  Hypothesis K_distinct :
    str_nodup [k_dec K; k_time K; k_dt K; k_date K; k_dur K; k_set K] = true.

  Notation encode := (encode K dec_str time_str dt_str date_str dur_str).
  Notation decode := (decode K dec_parse time_parse dt_parse date_parse dur_parse).
  Notation hook := (hook K dec_parse time_parse dt_parse date_parse dur_parse).
  Notation ejson_ok := (ejson_ok K).

  Lemma K_ne : forall a b, In a [k_dec K; k_time K; k_dt K; k_date K; k_dur K; k_set K] ->
    In b [k_dec K; k_time K; k_dt K; k_date K; k_dur K; k_set K] -> True.
  Proof. trivial. Qed.

  (* all ten inequalities, extracted once *)
  Lemma K_facts :
    str_eqb (k_dec K) (k_time K) = false /\ str_eqb (k_dec K) (k_dt K) = false /\ str_eqb (k_dec K) (k_date K) = false /\
    str_eqb (k_dec K) (k_dur K) = false /\ str_eqb (k_time K) (k_dt K) = false /\ str_eqb (k_time K) (k_date K) = false /\
    str_eqb (k_time K) (k_dur K) = false /\ str_eqb (k_dt K) (k_date K) = false /\ str_eqb (k_dt K) (k_dur K) = false /\
    str_eqb (k_date K) (k_dur K) = false.
  Proof.
    pose proof K_distinct as H. unfold str_nodup, str_in in H. simpl in H.
    repeat (apply andb_true_iff in H; destruct H as [? H]).
    repeat match goal with X : negb _ = true |- _ => apply negb_true_iff in X end.
    repeat match goal with X : _ || _ = false |- _ => apply orb_false_iff in X; destruct X end.
    repeat split; assumption.
  Qed.

  Lemma jget_no_reserved l k : reserved K k = true ->
    forallb (fun kv => negb (reserved K (fst kv))) l = true -> jget l k = None.
  Proof.
    intros Hk. induction l as [|[a b] l IH]; simpl; [reflexivity|].
    intros H. apply andb_true_iff in H as [H1 H2]. apply negb_true_iff in H1.
    destruct (str_eqb k a) eqn:E; [|apply IH, H2].
    apply str_eqb_eq in E. subst a. simpl in H1. congruence.
  Qed.

  Lemma hook_plain l :
    forallb (fun kv => negb (reserved K (fst kv))) l = true -> hook l = VObj l.
  Proof.
    intros H. unfold EJson.hook.
    rewrite !jget_no_reserved; try exact H; try reflexivity;
      unfold reserved; rewrite ?str_eqb_refl, ?orb_true_r; reflexivity.
  Qed.

  Theorem ejson_roundtrip : forall v, ejson_ok v = true -> decode (encode v) = v.
  Proof.
    destruct K_facts as [F1 [F2 [F3 [F4 [F5 [F6 [F7 [F8 [F9 F10]]]]]]]]].
    induction v using value_ind2; intros OK; simpl in *; try reflexivity.
    - (* decimal *)
      unfold EJson.hook. simpl. rewrite str_eqb_refl, dec_rt. reflexivity.
    - (* date *)
      unfold EJson.hook. simpl.
      rewrite F3, F6, F8, str_eqb_refl, date_rt.
      reflexivity.
    - (* time *)
      apply Z.eqb_eq in OK. subst us. unfold EJson.hook. simpl.
      rewrite F1, str_eqb_refl, time_rt. reflexivity.
    - (* datetime *)
      apply andb_true_iff in OK as [U T]. apply Z.eqb_eq in U. subst us. unfold EJson.hook. simpl.
      rewrite F2, F5, str_eqb_refl, dt_rt.
      destruct tz as [[ofs [n|]]|]; try discriminate; reflexivity.
    - (* duration *)
      unfold EJson.hook. simpl.
      rewrite F4, F7, F9, F10, str_eqb_refl, dur_rt. reflexivity.
    - (* list *)
      f_equal. rewrite map_map. induction l as [|x l IHl]; simpl in *; [reflexivity|].
      apply andb_true_iff in OK as [O1 O2]. inversion H as [|? ? Hx Hl]; subst.
      rewrite Hx by exact O1. rewrite IHl by assumption. reflexivity.
    - (* object *)
      rewrite map_map. simpl.
      assert (E : map (fun kv : str * value => (fst kv, decode (encode (snd kv)))) l = l).
      { induction l as [|[k x] l IHl]; simpl in *; [reflexivity|].
        apply andb_true_iff in OK as [O1 O2]. apply andb_true_iff in O1 as [_ O1].
        inversion H as [|? ? Hx Hl]; subst. simpl in Hx. rewrite Hx by exact O1. rewrite IHl by assumption. reflexivity. }
      rewrite E. apply hook_plain.
      clear - OK. induction l as [|[k x] l IHl]; simpl in *; [reflexivity|].
      apply andb_true_iff in OK as [O1 O2]. apply andb_true_iff in O1 as [O1 _]. rewrite O1. simpl. apply IHl, O2.
  Qed.
End RT.
