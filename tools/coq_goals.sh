#!/bin/bash
# usage: coq_goals.sh <file.v> <line> [extra tactics] : shows the goals after the given line
F=$1; N=$2; X=${3:-}
head -n "$N" "$F" > /var/tmp/_goals.v
echo "$X" >> /var/tmp/_goals.v
echo "Show." >> /var/tmp/_goals.v
cd /verif/coq && timeout 120 coqtop -Q . DF -batch -load-vernac-source /var/tmp/_goals.v 2>&1 | tail -${4:-60}
