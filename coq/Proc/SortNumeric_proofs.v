(* sort_rows on one numeric key field, end to end: for every list of canonical binary64 numbers (any length below
   16^8) the order in which the sorter emits the row numbers is ascending in the numbers, ties in input order. *)
From Coq Require Import List ZArith Bool Lia Sorted Permutation.
From DF Require Import Base.Str Base.Str_proofs Base.Value Proc.RowOps Proc.Sort Proc.Sort_proofs Proc.SortFloat_proofs.
Import ListNotations.
Open Scope Z_scope.

Definition nkey (me : Z * Z) : str := hexw 16 (num_key (fst me) (snd me)).
Definition scaled (S : Z) (me : Z * Z) : Z := fst me * 2 ^ (snd me - S).
Definition ok_at (S : Z) (me : Z * Z) : Prop := canon (fst me) (snd me) /\ scale_ok S (fst me) (snd me) /\ S <= snd me.

Lemma hexw_length w : forall n, length (hexw w n) = w.
Proof. induction w as [|w IH]; intros n; simpl; [reflexivity|]. rewrite app_length, IH. simpl. lia. Qed.

Lemma nkeys_pfree vals : all_pfree (map nkey vals).
Proof.
  intros a b Ha Hb. apply in_map_iff in Ha as (x & <- & _). apply in_map_iff in Hb as (y & <- & _).
  apply pfree_eqlen. unfold nkey. rewrite !hexw_length. reflexivity.
Qed.

Lemma nkey_lt S a b : ok_at S a -> ok_at S b -> (str_ltb (nkey a) (nkey b) = true <-> scaled S a < scaled S b).
Proof.
  intros (Ca & Ka & Sa) (Cb & Kb & Sb). unfold nkey, scaled. apply numeric_text_key_order; assumption.
Qed.

Lemma nkey_eq S a b : ok_at S a -> ok_at S b -> nkey a = nkey b -> scaled S a = scaled S b.
Proof.
  intros A B E. destruct (Z.lt_trichotomy (scaled S a) (scaled S b)) as [L|[Q|G]]; [|exact Q|].
  - apply (nkey_lt S a b A B) in L. rewrite E in L. rewrite str_ltb_irrefl in L. discriminate.
  - apply (nkey_lt S b a B A) in G. rewrite E in G. rewrite str_ltb_irrefl in G. discriminate.
Qed.

(* a (key, row number) pair of the tagged input is the key of the row at that number *)
Lemma tags_entries (ks : list str) k i :
  In (k, i) (combine ks (map (fun n => 0 + Z.of_nat n) (seq 0 (length ks)))) ->
  0 <= i /\ nth_error ks (Z.to_nat i) = Some k.
Proof.
  assert (G : forall (l : list str) (base : nat) (k : str) (i : Z),
             In (k, i) (combine l (map (fun n => 0 + Z.of_nat n) (seq base (length l)))) ->
             Z.of_nat base <= i /\ nth_error l (Z.to_nat i - base) = Some k).
  { induction l as [|x l IHl]; intros base k0 i0 HI; simpl in HI; [destruct HI|].
    destruct HI as [E|HI].
    - injection E as -> E2. split; [lia|]. replace (Z.to_nat i0 - base)%nat with O by lia. reflexivity.
    - destruct (IHl (S base) k0 i0 HI) as [B N]. split; [lia|].
      replace (Z.to_nat i0 - base)%nat with (S (Z.to_nat i0 - S base)) by lia. exact N. }
  intros H. destruct (G ks O k i H) as [B N]. split; [lia|]. rewrite Nat.sub_0_r in N. exact N.
Qed.

Lemma StronglySorted_weaken {A} (R R' : A -> A -> Prop) l :
  StronglySorted R l -> (forall a b, In a l -> In b l -> R a b -> R' a b) -> StronglySorted R' l.
Proof.
  induction 1 as [|a l S IH F]; intros W; constructor.
  - apply IH. intros x y Hx Hy. apply W; right; assumption.
  - rewrite Forall_forall in *. intros b Hb. apply W; [left; reflexivity|right; exact Hb|apply F; exact Hb].
Qed.

(* the order of the numbers, ties by row number *)
Definition by_value (S : Z) (vals : list (Z * Z)) (a b : str * Z) : Prop :=
  exists va vb, nth_error vals (Z.to_nat (snd a)) = Some va /\ nth_error vals (Z.to_nat (snd b)) = Some vb /\
    (scaled S va < scaled S vb \/ (scaled S va = scaled S vb /\ snd a < snd b)).

Theorem numeric_sort_order S vals :
  Forall (ok_at S) vals -> Z.of_nat (length vals) <= 16 ^ Z.of_nat 8 ->
  let out := sorted_tags 8 (map nkey vals) in
  StronglySorted (by_value S vals) out /\
  Permutation (map snd out) (map (fun n => 0 + Z.of_nat n) (seq 0 (length vals))).
Proof.
  intros OK LEN out.
  destruct (sorted_tags_correct 8 (map nkey vals) (nkeys_pfree vals) ltac:(rewrite map_length; exact LEN)) as [SS PERM].
  fold out in SS, PERM. rewrite tag_keys_snd in PERM. rewrite map_length in PERM.
  assert (ENT : forall x, In x out -> 0 <= snd x /\ exists v, nth_error vals (Z.to_nat (snd x)) = Some v /\ fst x = nkey v /\ ok_at S v).
  { intros [k i] Hx. apply (Permutation_in _ PERM) in Hx.
    replace (length vals) with (length (map nkey vals)) in Hx by apply map_length.
    apply tags_entries in Hx as [B N]. split; [exact B|].
    destruct (nth_error vals (Z.to_nat i)) as [v|] eqn:NV.
    - exists v. rewrite (map_nth_error nkey _ _ NV) in N. injection N as <-. cbn [fst snd]. split; [exact NV|]. split; [reflexivity|].
      rewrite Forall_forall in OK. apply OK. eapply nth_error_In. exact NV.
    - exfalso. apply nth_error_None in NV. assert (X : nth_error (map nkey vals) (Z.to_nat i) = None) by (apply nth_error_None; rewrite map_length; exact NV).
      congruence. }
  split.
  - apply (StronglySorted_weaken lt2); [exact SS|].
    intros a b Ha Hb L. destruct (ENT a Ha) as (_ & va & Na & Ea & Oa). destruct (ENT b Hb) as (_ & vb & Nb & Eb & Ob).
    exists va, vb. split; [exact Na|]. split; [exact Nb|].
    destruct L as [L|[E P]].
    + left. rewrite Ea, Eb in L. apply (nkey_lt S va vb Oa Ob). exact L.
    + right. split; [|exact P]. apply (nkey_eq S va vb Oa Ob). rewrite <- Ea, <- Eb. exact E.
  - transitivity (map snd (combine (map nkey vals) (map (fun n => 0 + Z.of_nat n) (seq 0 (length vals))))).
    + apply Permutation_map. exact PERM.
    + assert (Q : forall (A B : Type) (l : list A) (m : list B), length l = length m -> map snd (combine l m) = m).
      { induction l as [|x l IHl]; intros [|y m] L0; simpl in *; try discriminate; [reflexivity|]. f_equal. apply IHl. lia. }
      rewrite Q; [apply Permutation_refl|]. rewrite !map_length, seq_length. reflexivity.
Qed.

(* the key the sorter computes for a row whose (single) key field holds a number is nkey of its dyadic form *)
Lemma key_calc_numeric f r v me :
  rget r f = Some v -> dyadic_of v = Some me ->
  (match v with VStr _ | VNull => False | _ => True end) ->
  key_calc [f] r = Ok (nkey me).
Proof.
  intros G D NS. cbn [key_calc]. rewrite G. unfold enc_field. destruct me as [m e].
  destruct v; try contradiction; rewrite D; cbn [key_calc]; rewrite app_nil_r; reflexivity.
Qed.
