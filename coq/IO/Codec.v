(* Typed cell codecs of the file dumpers (formats/format_csv.py, format_json.py, base.py)
   and of reading back with the stamped schema (tableschema casts).  The textual codecs of
   Python scalars are parameters with the hypothesis parse (print x) = x. *)
From Coq Require Import List ZArith Bool Lia.
From DF Require Import Base.Str Base.Lits Base.Value IO.Csv.
Import ListNotations.
Open Scope Z_scope.

Inductive ftype := TString | TInteger | TNumber | TBoolean | TDate | TTime | TDateTime | TYear | TArray | TObject.

Section Codec.
  Variable int_str : Z -> str.                 Variable int_parse : str -> option Z.
  Variable dec_str : Z -> Z -> str.            Variable dec_parse : str -> option (Z * Z).
  Variable date_str : Z -> Z -> Z -> str.      Variable date_parse : str -> option (Z * Z * Z).
  Variable time_str : Z -> Z -> Z -> str.      Variable time_parse : str -> option (Z * Z * Z).
  Variable dt_str : Z -> Z -> Z -> Z -> Z -> Z -> str.
  Variable dt_parse : str -> option (Z * Z * Z * Z * Z * Z).
  Variable year_str : Z -> str.                Variable year_parse : str -> option Z.
  Variable json_str : value -> str.            Variable json_parse : str -> option value.

  (* CSVFormat: SERIALIZERS + default str; NULL_VALUE = '' *)
  Definition serialise (t : ftype) (v : value) : option str :=
    match v with
    | VNull => Some []
    | _ =>
        match t, v with
        | TString, VStr x => Some x
        | TInteger, VInt z => Some (int_str z)
        | TNumber, VDec m e => Some (dec_str m e)
        | TBoolean, VBool b => Some (if b then s_True else s_False)
        | TDate, VDate y m d => Some (date_str y m d)
        | TTime, VTime h mi sc _ => Some (time_str h mi sc)
        | TDateTime, VDT y mo d h mi sc _ _ => Some (dt_str y mo d h mi sc)
        | TYear, VInt z => Some (year_str z)
        | TArray, VList l => Some (json_str (VList l))
        | TObject, VObj l => Some (json_str (VObj l))
        | _, _ => None
        end
    end.

  (* reading back: missingValues = [''] gives null; otherwise the cast of the stamped field *)
  Definition cast_cell (t : ftype) (x : str) : option value :=
    match x with
    | [] => Some VNull
    | _ =>
        match t with
        | TString => Some (VStr x)
        | TInteger => match int_parse x with Some z => Some (VInt z) | None => None end
        | TNumber => match dec_parse x with Some (m, e) => Some (VDec m e) | None => None end
        | TBoolean => if str_eqb x s_True then Some (VBool true) else if str_eqb x s_False then Some (VBool false) else None
        | TDate => match date_parse x with Some (y, m, d) => Some (VDate y m d) | None => None end
        | TTime => match time_parse x with Some (h, mi, sc) => Some (VTime h mi sc 0) | None => None end
        | TDateTime => match dt_parse x with Some (y, mo, d, h, mi, sc) => Some (VDT y mo d h mi sc 0 None) | None => None end
        | TYear => match year_parse x with Some z => Some (VInt z) | None => None end
        | TArray | TObject => json_parse x
        end
    end.

  (* typed values in the property's domain: temporal values at second precision, naive datetimes,
     non-empty strings (the empty string is a missing value by the library's own convention) *)
  Definition typed (t : ftype) (v : value) : bool :=
    match v with
    | VNull => true
    | _ =>
        match t, v with
        | TString, VStr (_ :: _) => true
        | TInteger, VInt _ => true
        | TNumber, VDec _ _ => true
        | TBoolean, VBool _ => true
        | TDate, VDate _ _ _ => true
        | TTime, VTime _ _ _ us => us =? 0
        | TDateTime, VDT _ _ _ _ _ _ us tz => (us =? 0) && match tz with None => true | Some _ => false end
        | TYear, VInt _ => true
        | TArray, VList _ => true
        | TObject, VObj _ => true
        | _, _ => false
        end
    end.

  (* a row is written in schema order; cells are serialised field by field *)
  Fixpoint serialise_row (schema : list (str * ftype)) (r : row) : option (list str) :=
    match schema with
    | [] => Some []
    | (n, t) :: rest =>
        match serialise t (rget0 r n), serialise_row rest r with
        | Some c, Some cs => Some (c :: cs)
        | _, _ => None
        end
    end.

  (* reading maps cells to fields by position *)
  Fixpoint cast_row_cells (schema : list (str * ftype)) (cells : list str) : option row :=
    match schema, cells with
    | [], [] => Some []
    | (n, t) :: rest, c :: cs =>
        match cast_cell t c, cast_row_cells rest cs with
        | Some v, Some r => Some ((n, v) :: r)
        | _, _ => None
        end
    | _, _ => None
    end.
End Codec.
