(* ResourceMatcher call sites (tie to the source through Gen/Consts.v) *)
From Coq Require Import List ZArith Bool String.
From DF Require Import Base.Str.
Import ListNotations.
Open Scope string_scope.

(* What each call site passes as ResourceMatcher's second argument, as source
   text (generated into Gen/Consts.v).  A Package object or a package
   descriptor resolves integer selectors correctly; anything else does not. *)
Definition arg_is_package (txt : str) : bool :=
  str_in txt [s "package.pkg"; s "dp"; s "self.load_dp"; s "datapackage_descriptor";
              s "spec.package or spec.descriptor"].
