(* join / join_with_self (dataflows/processors/join.py): key rendering, the
   per-key aggregation index, the target pass, and the schema edit. *)
From Coq Require Import List ZArith Bool Lia.
From DF Require Import Base.Str Base.Lits Base.Value Proc.RowOps Proc.Fields Proc.Sort.
Import ListNotations.
Open Scope Z_scope.

(* ---------- keys ---------- *)
(* key_spec after parsing: literal text / {field}; the field "#" is the row number *)
Definition kspec := list (str + str).

Fixpoint render_key (ks : kspec) (r : row) (n : Z) : res str :=
  match ks with
  | [] => Ok []
  | inl lit :: rest => match render_key rest r n with Err c => Err c | Ok x => Ok (lit ++ x) end
  | inr f :: rest =>
      let v := if str_eqb f s_hash then Some (VInt n) else rget r f in
      match v with
      | None => Err E_KEY
      | Some v =>
          match str_of_value v with
          | Err c => Err c
          | Ok a => match render_key rest r n with Err c => Err c | Ok x => Ok (a ++ x) end
          end
      end
  end.

(* key_list: the field names of the spec, in order *)
Fixpoint key_list (ks : kspec) : list str :=
  match ks with
  | [] => []
  | inl _ :: rest => key_list rest
  | inr f :: rest => f :: key_list rest
  end.

(* ---------- aggregators ---------- *)
Inductive agg := GSum | GAvg | GMedian | GMax | GMin | GFirst | GLast | GCount | GAny | GSet | GArray | GCounters.

Inductive aggst :=
| SNone
| SVal (v : value)
| SAvg (n sum : Z)
| SList (l : list value)
| SCount (n : Z)
| SSet (l : list value)                 (* distinct values, first-appearance order *)
| SCounter (l : list (value * Z)).      (* first-appearance order *)

Definition vmem (v : value) (l : list value) : bool := existsb (veqb v) l.

Fixpoint counter_add (v : value) (l : list (value * Z)) : list (value * Z) :=
  match l with
  | [] => [(v, 1)]
  | (x, n) :: r => if veqb v x then (x, n + 1) :: r else (x, n) :: counter_add v r
  end.

Definition vlt (a b : value) : option bool :=
  match a, b with
  | VInt x, VInt y => Some (x <? y)
  | VStr x, VStr y => Some (str_ltb x y)
  | _, _ => None
  end.

(* AGGREGATORS[agg].func(curr, new) with new non-null *)
Definition agg_func (g : agg) (curr : aggst) (new : value) : res aggst :=
  match g, curr with
  | GSum, SNone => Ok (SVal new)
  | GSum, SVal c =>
      match new, c with
      | VInt a, VInt b => Ok (SVal (VInt (a + b)))
      | VStr a, VStr b => Ok (SVal (VStr (a ++ b)))            (* new + curr *)
      | _, _ => Err E_UNMODELLED
      end
  | GAvg, SNone => match new with VInt a => Ok (SAvg 1 a) | _ => Err E_UNMODELLED end
  | GAvg, SAvg n sm => match new with VInt a => Ok (SAvg (n + 1) (a + sm)) | _ => Err E_UNMODELLED end
  | GMedian, SNone | GArray, SNone => Ok (SList [new])
  | GMedian, SList l | GArray, SList l => Ok (SList (l ++ [new]))
  | GMax, SNone | GMin, SNone => Ok (SVal new)
  | GMax, SVal c => match vlt c new with
                    | Some b => Ok (SVal (if b then new else if veqb c new then new else c))
                    | None => Err E_UNMODELLED end
  | GMin, SVal c => match vlt new c with
                    | Some b => Ok (SVal (if b then new else if veqb c new then new else c))
                    | None => Err E_UNMODELLED end
  | GFirst, SNone => Ok (SVal new)
  | GFirst, SVal c => Ok (SVal c)
  | GLast, _ | GAny, _ => Ok (SVal new)
  | GCount, SNone => Ok (SCount 1)
  | GCount, SCount n => Ok (SCount (n + 1))
  | GSet, SNone => Ok (SSet [new])
  | GSet, SSet l => Ok (SSet (if vmem new l then l else l ++ [new]))
  | GCounters, SNone => Ok (SCounter [(new, 1)])
  | GCounters, SCounter l => Ok (SCounter (counter_add new l))
  | _, _ => Err E_UNMODELLED
  end.

(* insertion sort of integers (median's sorted()) *)
Fixpoint zinsert (x : Z) (l : list Z) : list Z :=
  match l with [] => [x] | y :: r => if x <=? y then x :: l else y :: zinsert x r end.
Definition zsort (l : list Z) : list Z := fold_right zinsert [] l.

(* most_common(): by count descending, ties in first-appearance order (stable) *)
Fixpoint cinsert (p : value * Z) (l : list (value * Z)) : list (value * Z) :=
  match l with
  | [] => [p]
  | q :: r => if snd q <=? snd p then p :: l else q :: cinsert p r
  end.
Definition most_common (l : list (value * Z)) : list (value * Z) := fold_right cinsert [] l.

(* AGGREGATORS[agg].finaliser *)
Definition finalise (g : agg) (st : aggst) : res value :=
  match g, st with
  | GSet, SNone | GArray, SNone | GCounters, SNone => Ok (VList [])
  | _, SNone => Ok VNull
  | GAvg, SAvg n sm => exact_div sm n
  | GMedian, SList l =>
      match ints_of l with
      | None => Err E_UNMODELLED
      | Some zs =>
          let srt := zsort zs in
          let ll := Z.of_nat (length srt) in
          let mid := Z.to_nat (ll / 2) in
          if ll mod 2 =? 0 then exact_div (nth (mid - 1) srt 0 + nth mid srt 0) 2
          else Ok (VInt (nth mid srt 0))
      end
  | GCount, SCount n => Ok (VInt n)
  | GSet, SSet l => Ok (VList l)
  | GArray, SList l => Ok (VList l)
  | GCounters, SCounter l => Ok (VList (map (fun p => VList [fst p; VInt (snd p)]) (most_common l)))
  | _, SVal v => Ok v
  | _, _ => Err E_UNMODELLED
  end.

(* ---------- the index ---------- *)
Record jfield := { jf_target : str; jf_source : str; jf_agg : agg }.

(* what is stored under one key *)
Record entry := { e_fields : list (str * aggst); e_key : option (list value) }.

Fixpoint eget (l : list (str * aggst)) (k : str) : option aggst :=
  match l with [] => None | (a, b) :: r => if str_eqb k a then Some b else eget r k end.
Fixpoint eset (l : list (str * aggst)) (k : str) (v : aggst) : list (str * aggst) :=
  match l with
  | [] => [(k, v)]
  | (a, b) :: r => if str_eqb k a then (a, v) :: r else (a, b) :: eset r k v
  end.

Definition is_count (g : agg) : bool := match g with GCount => true | _ => false end.

(* the loop over fields.items() for one source row *)
Fixpoint update_fields (fs : list jfield) (r : row) (cur : list (str * aggst)) : res (list (str * aggst)) :=
  match fs with
  | [] => Ok cur
  | f :: rest =>
      let curr := match eget cur (jf_target f) with Some c => c | None => SNone end in
      let new := if is_count (jf_agg f) then VStr [] else rget0 r (jf_source f) in
      if is_null new then
        update_fields rest r (match eget cur (jf_target f) with Some _ => cur | None => eset cur (jf_target f) SNone end)
      else match agg_func (jf_agg f) curr new with
           | Err c => Err c
           | Ok st => update_fields rest r (eset cur (jf_target f) st)
           end
  end.

Definition db := list (str * entry).       (* sorted by key: the KVFile *)

Fixpoint db_get (d : db) (k : str) : option entry :=
  match d with [] => None | (a, e) :: r => if str_eqb k a then Some e else db_get r k end.

(* indexer: one source row *)
Definition index_row (fs : list jfield) (skey : kspec) (full_outer : bool) (d : db) (r : row) (n : Z) : res db :=
  match render_key skey r n with
  | Err c => Err c
  | Ok k =>
      let cur := match db_get d k with Some e => e_fields e | None => [] end in
      match update_fields fs r cur with
      | Err c => Err c
      | Ok cur' =>
          Ok (kv_insert k {| e_fields := cur';
                             e_key := if full_outer then Some (map (rget0 r) (key_list skey))
                                      else match db_get d k with Some e => e_key e | None => None end |} d)
      end
  end.

Fixpoint index_rows (fs : list jfield) (skey : kspec) (fo : bool) (d : db) (rows : list row) (n : Z) : res db :=
  match rows with
  | [] => Ok d
  | r :: rs => match index_row fs skey fo d r n with
               | Err c => Err c
               | Ok d' => index_rows fs skey fo d' rs (n + 1)
               end
  end.

(* create_extra_by_key *)
Fixpoint finalise_all (fs : list jfield) (stored : list (str * aggst)) : res row :=
  match stored with
  | [] => Ok []
  | (k, st) :: rest =>
      match find (fun f => str_eqb (jf_target f) k) fs with
      | None => finalise_all fs rest                       (* "if k in fields" *)
      | Some f =>
          match finalise (jf_agg f) st with
          | Err c => Err c
          | Ok v => match finalise_all fs rest with Err c => Err c | Ok o => Ok (rset o k v) end
          end
      end
  end.

(* dict((k, fin(v)) ...) keeps the stored order; rset on the tail would reverse it, so build front-to-back *)
Fixpoint finalise_list (fs : list jfield) (stored : list (str * aggst)) : res row :=
  match stored with
  | [] => Ok []
  | (k, st) :: rest =>
      match find (fun f => str_eqb (jf_target f) k) fs with
      | None => finalise_list fs rest
      | Some f =>
          match finalise (jf_agg f) st with
          | Err c => Err c
          | Ok v => match finalise_list fs rest with Err c => Err c | Ok o => Ok ((k, v) :: o) end
          end
      end
  end.

Definition create_extra (fs : list jfield) (tkey_list : list str) (e : entry) : res row :=
  match finalise_list fs (e_fields e) with
  | Err c => Err c
  | Ok extra =>
      match e_key e with
      | Some (kv :: kvs) => Ok (rupdate extra (combine tkey_list (kv :: kvs)))
      | _ => Ok extra
      end
  end.

Inductive jmode := MInner | MHalfOuter | MFullOuter.
Definition is_full (m : jmode) : bool := match m with MFullOuter => true | _ => false end.
Definition is_inner (m : jmode) : bool := match m with MInner => true | _ => false end.

(* process_target for one target row: Some row' / None when dropped; also the used key *)
Definition join_row (fs : list jfield) (tkey : kspec) (m : jmode) (d : db) (r : row) (n : Z)
  : res (option row * option str) :=
  match render_key tkey r n with
  | Err c => Err c
  | Ok k =>
      match db_get d k with
      | Some e =>
          match create_extra fs (key_list tkey) e with
          | Err c => Err c
          | Ok extra => Ok (Some (rupdate r extra), Some k)
          end
      | None =>
          if is_inner m then Ok (None, None)
          else Ok (Some (rupdate r (map (fun f => (jf_target f, rget0 r (jf_target f))) fs)), None)
      end
  end.

Fixpoint join_rows (fs : list jfield) (tkey : kspec) (m : jmode) (d : db) (rows : list row) (n : Z)
  : res (list row * list str) :=
  match rows with
  | [] => Ok ([], [])
  | r :: rs =>
      match join_row fs tkey m d r n with
      | Err c => Err c
      | Ok (o, used) =>
          match join_rows fs tkey m d rs (n + 1) with
          | Err c => Err c
          | Ok (out, us) => Ok ((match o with Some x => x :: out | None => out end),
                                (match used with Some k => k :: us | None => us end))
          end
      end
  end.

(* full-outer tail: one row per unused key, in key order *)
Fixpoint unused_rows (fs : list jfield) (tkl : list str) (d : db) (used : list str) : res (list row) :=
  match d with
  | [] => Ok []
  | (k, e) :: rest =>
      if str_in k used then unused_rows fs tkl rest used
      else match create_extra fs tkl e with
           | Err c => Err c
           | Ok x => match unused_rows fs tkl rest used with Err c => Err c | Ok o => Ok (x :: o) end
           end
  end.

Definition join_model (fs : list jfield) (skey tkey : kspec) (m : jmode) (src tgt : list row) : res (list row) :=
  match index_rows fs skey (is_full m) [] src 1 with
  | Err c => Err c
  | Ok d =>
      match join_rows fs tkey m d tgt 1 with
      | Err c => Err c
      | Ok (out, used) =>
          if is_full m then
            match unused_rows fs (key_list tkey) d used with Err c => Err c | Ok ex => Ok (out ++ ex) end
          else Ok out
      end
  end.

(* deduplication mode (join_with_self): one aggregated row per key, in key order *)
Fixpoint dedup_rows (fs : list jfield) (d : db) : res (list row) :=
  match d with
  | [] => Ok []
  | (k, e) :: rest =>
      match finalise_list fs (e_fields e) with
      | Err c => Err c
      | Ok vals =>
          match dedup_rows fs rest with
          | Err c => Err c
          | Ok o => Ok (rupdate (map (fun f => (jf_target f, VNull)) fs) vals :: o)
          end
      end
  end.

Definition join_self_model (fs : list jfield) (skey : kspec) (src : list row) : res (list row) :=
  match index_rows fs skey false [] src 1 with
  | Err c => Err c
  | Ok d => dedup_rows fs d
  end.

(* ---------- schema: type of each joined field ---------- *)
Definition agg_name (g : agg) : str :=
  match g with
  | GSum => s_sum | GAvg => s_avg | GMedian => s_median | GMax => s_max | GMin => s_min
  | GFirst => s_first | GLast => s_last | GCount => s_count | GAny => s_any | GSet => s_set
  | GArray => s_array | GCounters => s_counters
  end.

Fixpoint lookup_agg (t : list (str * (option str * bool))) (k : str) : option (option str * bool) :=
  match t with [] => None | (a, b) :: r => if str_eqb k a then Some b else lookup_agg r k end.

(* process_target_resource: the declared type of a joined field, from the
   AGGREGATORS table of the source (Gen/Consts.v) and the source field's type *)
Definition join_field_type (tbl : list (str * (option str * bool))) (g : agg) (source_type : str) : str :=
  match lookup_agg tbl (agg_name g) with
  | Some (Some t, _) => t
  | _ => source_type
  end.

(* the type a finalised aggregate value has *)
Definition value_fits (t : str) (v : value) : bool :=
  match v with
  | VNull => true
  | VInt _ => str_eqb t s_integer || str_eqb t s_number || str_eqb t s_any
  | VFlt _ _ | VDec _ _ => str_eqb t s_number || str_eqb t s_any
  | VStr _ => str_eqb t s_string || str_eqb t s_any
  | VList _ => str_eqb t s_array || str_eqb t s_any
  | VBool _ => str_eqb t s_boolean || str_eqb t s_any
  | _ => str_eqb t s_any
  end.

(* comparison helpers for case files: `set` aggregates are unordered *)
Definition list_seteq (l l' : list value) : bool :=
  Nat.eqb (length l) (length l') && forallb (fun x => vmem x l') l && forallb (fun x => vmem x l) l'.

Fixpoint row_eqb_s (sf : list str) (a b : row) : bool :=
  match a, b with
  | [], [] => true
  | (k, x) :: r, (k', y) :: r' =>
      str_eqb k k' &&
      (if str_in k sf then match x, y with VList l, VList l' => list_seteq l l' | _, _ => veqb x y end else veqb x y) &&
      row_eqb_s sf r r'
  | _, _ => false
  end.

Definition rows_eqb_s (sf : list str) (a b : list row) : bool := list_eqb (row_eqb_s sf) a b.
