(* C19: a dump descriptor is written only after its data files are complete. *)
From Coq Require Import List ZArith Bool.
From DF Require Import Base.Str Base.Value IO.Dump IO.Dump_proofs.
Import ListNotations.
Open Scope Z_scope.

(* For any number of resources of any size, after a kill following any number k of file
   operations (copies are chunked, so the destination may hold any chunk prefix): if
   datapackage.json exists at all -- complete or not -- every data file it lists exists
   with its complete content. *)
Theorem C19_descriptor_present_implies_files_complete : forall desc_path rs desc_chunks k r,
  NoDup (map d_path rs) -> ~ In desc_path (map d_path rs) -> In r rs ->
  od_get (dump_crash desc_path rs desc_chunks k) desc_path <> None ->
  od_get (dump_crash desc_path rs desc_chunks k) (d_path r) = Some (d_data r).
Proof. exact descriptor_present_implies_files. Qed.
Print Assumptions C19_descriptor_present_implies_files_complete.

(* a copy in progress only ever holds a prefix of the source *)
Theorem C19_copy_holds_prefix : forall p chunks k o c,
  od_get o p = Some c ->
  exists done, od_get (run_dops (firstn k (map (OutChunk p) chunks)) o) p = Some (c ++ done) /\ is_prefix done (concat chunks) = true.
Proof. exact chunks_prefix. Qed.
Print Assumptions C19_copy_holds_prefix.

(* at the end every data file is complete at its recorded path *)
Theorem C19_all_files_complete_after_resources : forall rs t o r,
  NoDup (map d_path rs) -> In r rs -> od_get (run_dops (all_res_ops t rs) o) (d_path r) = Some (d_data r).
Proof. exact all_res_complete. Qed.
Print Assumptions C19_all_files_complete_after_resources.
