(* Resource-level processors: concatenate, duplicate, delete_resource and the
   appending sources, over a package = list of resources (descriptor part + rows). *)
From Coq Require Import List ZArith Bool Lia.
From DF Require Import Base.Str Base.Lits Base.Value Proc.RowOps Proc.Sort.
Import ListNotations.
Open Scope Z_scope.

Record rsrc := {
  r_name : str;
  r_path : str;
  r_fields : list (str * str);          (* (name, type), in schema order *)
  r_pk : list str;
  r_rows : list row
}.
Definition pkg := list rsrc.

Definition E_RUNTIME : Z := 7.

(* ---------- concatenate ---------- *)
Fixpoint lookup_str (m : list (str * str)) (k : str) : option str :=
  match m with
  | [] => None
  | (a, b) :: m' => if str_eqb k a then Some b else lookup_str m' k
  end.

Definition has_key (m : list (str * str)) (k : str) : bool :=
  match lookup_str m k with Some _ => true | None => false end.

(* field_mapping construction with its two "Duplicate appearance" checks *)
Fixpoint add_sources (target : str) (sources : list str) (m : list (str * str)) : res (list (str * str)) :=
  match sources with
  | [] => Ok m
  | sf :: r => if has_key m sf then Err E_RUNTIME else add_sources target r (m ++ [(sf, target)])
  end.

Fixpoint build_mapping (fields : list (str * list str)) (m : list (str * str)) : res (list (str * str)) :=
  match fields with
  | [] => Ok m
  | (t, sources) :: r =>
      match add_sources t sources m with
      | Err c => Err c
      | Ok m1 => if has_key m1 t then Err E_RUNTIME else build_mapping r (m1 ++ [(t, t)])
      end
  end.

Fixpoint remove_str (x : str) (l : list str) : list str :=
  match l with
  | [] => []
  | y :: r => if str_eqb x y then r else y :: remove_str x r
  end.

(* target schema: fields of the selected resources, renamed, first appearance wins;
   state = (needed names, target fields so far, target primary key so far) *)
Definition schema_step (m : list (str * str)) (pk : list str)
           (st : list str * list (str * str) * list str) (f : str * str) :=
  let '(needed, tfields, tpk) := st in
  match lookup_str m (fst f) with
  | None => st
  | Some name =>
      if str_in name needed
      then (remove_str name needed, tfields ++ [(name, snd f)],
            if str_in (fst f) pk then tpk ++ [name] else tpk)
      else st
  end.

Definition concat_schema (m : list (str * str)) (targets : list str) (selected : list rsrc)
  : list (str * str) * list str :=
  let '(needed, tfields, tpk) :=
    fold_left (fun st r => fold_left (schema_step m (r_pk r)) (r_fields r) st) selected (targets, [], []) in
  (tfields ++ map (fun n => (n, s_string)) needed, tpk).

(* concatenator: one output row per input row *)
Definition concat_row (m : list (str * str)) (targets : list str) (r : row) : res row :=
  let values := flat_map (fun kv => match lookup_str m (fst kv) with
                                    | Some t => if is_null (snd kv) then [] else [(t, snd kv)]
                                    | None => [] end) r in
  match values with
  | [] => Err E_ASSERT                   (* 'Got an empty row after concatenation' *)
  | _ => Ok (rupdate (map (fun t => (t, VNull)) targets) (rdict values))
  end.

Fixpoint concat_rows (m : list (str * str)) (targets : list str) (rows : list row) : res (list row) :=
  match rows with
  | [] => Ok []
  | r :: rs => match concat_row m targets r with
               | Err c => Err c
               | Ok x => match concat_rows m targets rs with Err c => Err c | Ok xs => Ok (x :: xs) end
               end
  end.

(* descriptor list: the prefix / selected run / suffix state machine *)
Inductive cstate := CPrefix | CRun | CSuffix.

Fixpoint concat_resources (sel : str -> bool) (target : rsrc) (st : cstate) (l : pkg) : res pkg :=
  match l with
  | [] => match st with CSuffix => Ok [] | _ => Ok [target] end
  | r :: rest =>
      let mt := sel (r_name r) in
      match st with
      | CPrefix =>
          if mt then concat_resources sel target CRun rest
          else match concat_resources sel target CPrefix rest with Err c => Err c | Ok o => Ok (r :: o) end
      | CRun =>
          if mt then concat_resources sel target CRun rest
          else match concat_resources sel target CSuffix rest with Err c => Err c | Ok o => Ok (target :: r :: o) end
      | CSuffix =>
          if mt then Err E_ASSERT
          else match concat_resources sel target CSuffix rest with Err c => Err c | Ok o => Ok (r :: o) end
      end
  end.

Definition concatenate (fields : list (str * list str)) (tname tpath : str) (sel : str -> bool) (p : pkg) : res pkg :=
  match build_mapping fields [] with
  | Err c => Err c
  | Ok m =>
      let targets := map fst fields in
      let selected := filter (fun r => sel (r_name r)) p in
      let '(tfields, tpk) := concat_schema m targets selected in
      match concat_rows m targets (flat_map r_rows selected) with
      | Err c => Err c
      | Ok rows =>
          concat_resources sel {| r_name := tname; r_path := tpath; r_fields := tfields; r_pk := tpk; r_rows := rows |}
                           CPrefix p
      end
  end.

(* ---------- duplicate ---------- *)
(* saver/loader through the ordered store, keys '{:08x}'.format(idx) *)
Fixpoint index_rows (w : nat) (i : Z) (rows : list row) : list (str * row) :=
  match rows with
  | [] => []
  | r :: rs => (hexw w i, r) :: index_rows w (i + 1) rs
  end.

Definition dup_copy (w : nat) (rows : list row) : list row := map snd (kv_items (index_rows w 0 rows)).

Fixpoint dup_traverse (w : nat) (src tname tpath : str) (to_end : bool) (l : pkg) (pending : pkg) : pkg :=
  match l with
  | [] => pending
  | r :: rest =>
      if str_eqb (r_name r) src then
        let c := {| r_name := tname; r_path := tpath; r_fields := r_fields r; r_pk := r_pk r;
                    r_rows := dup_copy w (r_rows r) |} in
        if to_end then r :: dup_traverse w src tname tpath to_end rest (pending ++ [c])
        else r :: c :: dup_traverse w src tname tpath to_end rest pending
      else r :: dup_traverse w src tname tpath to_end rest pending
  end.

Definition duplicate (w : nat) (src tname tpath : str) (to_end : bool) (p : pkg) : pkg :=
  dup_traverse w src tname tpath to_end p [].

(* ---------- delete_resource ---------- *)
Definition delete_resource (sel : str -> bool) (p : pkg) : pkg :=
  filter (fun r => negb (sel (r_name r))) p.

(* ---------- iterables / load / sources: append after the existing resources ---------- *)
Definition append_resources (p new : pkg) : pkg := p ++ new.

(* comparison helpers for case files *)
Definition fields_eqb (a b : list (str * str)) : bool :=
  list_eqb (fun x y => str_eqb (fst x) (fst y) && str_eqb (snd x) (snd y)) a b.
Definition rsrc_eqb (a b : rsrc) : bool :=
  str_eqb (r_name a) (r_name b) && str_eqb (r_path a) (r_path b) && fields_eqb (r_fields a) (r_fields b)
  && list_eqb str_eqb (r_pk a) (r_pk b) && rows_eqb (r_rows a) (r_rows b).
Definition pkg_eqb (a b : pkg) : bool := list_eqb rsrc_eqb a b.
