(* parallelize: no deadlock and complete delivery.  An invariant over end markers, queue shapes and
   the fetcher's expected count shows, for every number of workers n >= 1, every input and every
   interleaving: a state in which no activity can take a step has c_done = true, and in a state with
   c_done = true every input row has been delivered (nothing is left in any queue, worker or thread). *)
From Coq Require Import List ZArith Bool Lia Permutation.
From DF Require Import Conc.Parallelize Conc.Parallelize_proofs.
Import ListNotations.

(* ---------- counting workers ---------- *)
Definition is_idle w := match w with WIdle => true | _ => false end.
Definition is_hold w := match w with WHold _ => true | _ => false end.
Definition is_end w := match w with WEnd => true | _ => false end.
Definition is_done w := match w with WDone => true | _ => false end.
Definition b2n (b : bool) : nat := if b then 1 else 0.
Fixpoint cnt (p : wst -> bool) (ws : list wst) : nat :=
  match ws with [] => 0 | w :: r => b2n (p w) + cnt p r end.

Lemma cnt_set_nth p ws : forall i w w0, nth_error ws i = Some w0 ->
  cnt p (set_nth i w ws) + b2n (p w0) = cnt p ws + b2n (p w).
Proof.
  induction ws as [|a ws IH]; intros [|i] w w0 H; simpl in *; try discriminate.
  - injection H as ->. lia.
  - specialize (IH i w w0 H). lia.
Qed.

Lemma length_set_nth {A} (ws : list A) : forall i w, length (set_nth i w ws) = length ws.
Proof. induction ws as [|a ws IH]; intros [|i] w; simpl; auto. Qed.

Lemma cnt_total ws : cnt is_idle ws + cnt is_hold ws + cnt is_end ws + cnt is_done ws = length ws.
Proof. induction ws as [|w ws IH]; simpl; [reflexivity|]. destruct w; simpl; lia. Qed.

Lemma cnt_repeat_idle p n : cnt p (repeat WIdle n) = n * b2n (p WIdle).
Proof. induction n as [|n IH]; simpl; [reflexivity|]. rewrite IH. lia. Qed.

Lemma cnt_le p ws : cnt p ws <= length ws.
Proof. induction ws as [|w ws IH]; simpl; [lia|]. destruct (p w); simpl; lia. Qed.

Lemma cnt_all p ws : cnt p ws = length ws -> forall i w, nth_error ws i = Some w -> p w = true.
Proof.
  induction ws as [|a ws IH]; intros H [|i] w N; simpl in *; try discriminate.
  - injection N as ->. pose proof (cnt_le p ws). destruct (p w); simpl in *; [reflexivity|lia].
  - apply (IH (ltac:(pose proof (cnt_le p ws); destruct (p a); simpl in *; lia)) i w N).
Qed.

Lemma cnt_pos_nth p ws : 0 < cnt p ws -> exists i w, i < length ws /\ nth_error ws i = Some w /\ p w = true.
Proof.
  induction ws as [|a ws IH]; simpl; intros H; [lia|].
  destruct (p a) eqn:A.
  - exists 0, a. repeat split; [lia|exact A].
  - simpl in H. destruct (IH H) as (i & w & L & N & P). exists (S i), w. repeat split; [lia|exact N|exact P].
Qed.

Lemma all_done_held ws : cnt is_done ws = length ws -> flat_map held ws = [].
Proof.
  induction ws as [|a ws IH]; simpl; intros H; [reflexivity|].
  pose proof (cnt_le is_done ws). destruct a; simpl in *; try lia. apply IH. lia.
Qed.

(* ---------- counting queue entries ---------- *)
Definition is_none (o : option item) := match o with None => true | _ => false end.
Fixpoint cnone (q : list (option item)) : nat := match q with [] => 0 | o :: r => b2n (is_none o) + cnone r end.
Fixpoint csome (q : list (option item)) : nat := match q with [] => 0 | o :: r => b2n (negb (is_none o)) + csome r end.

Lemma cnone_app a b : cnone (a ++ b) = cnone a + cnone b.
Proof. induction a as [|o a IH]; simpl; [reflexivity|]. rewrite IH. lia. Qed.
Lemma csome_app a b : csome (a ++ b) = csome a + csome b.
Proof. induction a as [|o a IH]; simpl; [reflexivity|]. rewrite IH. lia. Qed.
Lemma c_zero_nil q : cnone q = 0 -> csome q = 0 -> q = [].
Proof. destruct q as [|[x|] r]; simpl; intros; [reflexivity|lia|lia]. Qed.

(* q_in: rows first, end markers last *)
Fixpoint shape_in (q : list (option item)) : bool :=
  match q with [] => true | Some _ :: r => shape_in r | None :: r => Nat.eqb (csome r) 0 end.

Lemma csome0_shape q : csome q = 0 -> shape_in q = true.
Proof.
  induction q as [|[x|] r IH]; simpl; intros H; [reflexivity|lia|].
  apply Nat.eqb_eq. exact H.
Qed.
Lemma shape_in_app_some q x : shape_in q = true -> cnone q = 0 -> shape_in (q ++ [Some x]) = true.
Proof.
  induction q as [|[y|] r IH]; simpl; intros S N; [reflexivity|apply IH; [exact S|exact N]|lia].
Qed.
Lemma shape_in_app_none q : shape_in q = true -> shape_in (q ++ [None]) = true.
Proof.
  induction q as [|[y|] r IH]; simpl; intros S; [reflexivity|apply IH; exact S|].
  apply Nat.eqb_eq in S. apply Nat.eqb_eq. rewrite csome_app. simpl. lia.
Qed.

(* q_out / q_internal: empty or ending in an end marker *)
Definition ends_none (q : list (option item)) : bool := is_none (last q None).
Lemma ends_none_app_none q : ends_none (q ++ [None]) = true.
Proof. unfold ends_none. rewrite last_last. reflexivity. Qed.
Lemma ends_none_tail h r : ends_none (h :: r) = true -> ends_none r = true.
Proof. unfold ends_none. destruct r as [|a r]; [reflexivity|]. intros H. exact H. Qed.
Lemma ends_none_nonone q : ends_none q = true -> cnone q = 0 -> q = [].
Proof.
  induction q as [|h r IH]; [reflexivity|]. intros E N. exfalso.
  destruct h as [x|]; simpl in N; [|lia].
  destruct r as [|a r]; [discriminate E|].
  assert (X : a :: r = []) by (apply IH; [apply (ends_none_tail _ _ E)|exact N]). discriminate.
Qed.

(* ---------- the invariant ---------- *)
Definition quiet (n : nat) (s : state) : Prop :=
  p_rem s = [] /\ p_marks s = 0 /\ q_in s = [] /\ q_out s = [] /\ cnt is_done (workers s) = n.

Definition fetch_ok (n : nat) (s : state) : Prop :=
  match fetcher s with
  | FIdle e | FHold e _ =>
      1 <= e /\ e + cnt is_done (workers s) = n + cnone (q_out s) /\ cnone (q_int s) = 0 /\ c_done s = false
  | FLast => quiet n s /\ cnone (q_int s) = 0 /\ c_done s = false
  | FDone => quiet n s /\ (if c_done s then q_int s = [] else cnone (q_int s) = 1 /\ ends_none (q_int s) = true)
  end.

Definition Inv (n : nat) (s : state) : Prop :=
  length (workers s) = n /\
  p_marks s <= n /\ (p_marks s < n -> p_rem s = []) /\
  p_marks s + cnone (q_in s) + cnt is_end (workers s) + cnt is_done (workers s) = n /\
  shape_in (q_in s) = true /\
  (0 < cnt is_end (workers s) + cnt is_done (workers s) -> csome (q_in s) = 0) /\
  (cnt is_done (workers s) = n -> ends_none (q_out s) = true) /\
  fetch_ok n s.

Lemma inv_init n input : 1 <= n -> Inv n (init n input).
Proof.
  intros Hn. unfold Inv, fetch_ok, init. cbn [p_rem p_marks q_in workers q_out fetcher q_int delivered c_done].
  rewrite repeat_length, !cnt_repeat_idle. simpl.
  repeat split; try lia; try reflexivity; try (intros; lia).
Qed.

Ltac proj := cbn [p_rem p_marks q_in workers q_out fetcher q_int delivered c_done].

Ltac wfacts W w' :=
  pose proof (cnt_set_nth is_idle _ _ w' _ W) as Ci; pose proof (cnt_set_nth is_hold _ _ w' _ W) as Ch;
  pose proof (cnt_set_nth is_end _ _ w' _ W) as Ce; pose proof (cnt_set_nth is_done _ _ w' _ W) as Cd;
  cbn [is_idle is_hold is_end is_done b2n] in Ci, Ch, Ce, Cd.

Ltac fin :=
  try lia; try assumption; try (intros; reflexivity); try (intros; lia); try tauto;
  try (apply shape_in_app_none; assumption); try apply ends_none_app_none;
  try (intros; apply ends_none_app_none).

Theorem fire_preserves_inv n s l s' : 1 <= n -> Inv n s -> fire s l = Some s' -> Inv n s'.
Proof.
  intros Hn (IL & IM & IR & IK & ISh & ICs & IEn & IF) F.
  pose proof (cnt_total (workers s)) as TOT.
  destruct l; simpl in F.
  - (* producer *)
    destruct (p_rem s) as [|x rest] eqn:P.
    + destruct (p_marks s) as [|m] eqn:M; [discriminate|]. injection F as <-.
      unfold Inv, fetch_ok, quiet in *. proj. rewrite cnone_app, csome_app. simpl.
      repeat split; fin.
      destruct (fetcher s); try assumption; destruct IF as ((_ & X & _) & _); lia.
    + assert (PM : p_marks s = n) by (destruct (Nat.eq_dec (p_marks s) n); [assumption|]; assert (X : x :: rest = []) by (apply IR; lia); discriminate).
      destruct (isel x); injection F as <-; unfold Inv, fetch_ok, quiet in *; proj; rewrite ?cnone_app, ?csome_app; simpl.
      * repeat split; fin.
        -- apply shape_in_app_some; [exact ISh|lia].
        -- destruct (fetcher s); try assumption; destruct IF as ((X & _) & _); congruence.
      * repeat split; fin.
        destruct (fetcher s); try (destruct IF as (A & B & C & D); repeat split; [assumption|assumption|lia|assumption]);
          destruct IF as ((X & _) & _); congruence.
  - (* worker get *)
    destruct (nth_error (workers s) i) as [w0|] eqn:W; [|discriminate].
    destruct w0; try discriminate. destruct (q_in s) as [|[x|] rest] eqn:Q; try discriminate; injection F as <-.
    + wfacts W (WHold x). unfold upd_w, Inv, fetch_ok, quiet in *. proj. rewrite length_set_nth. simpl in IK, ISh, ICs.
      assert (Cd' : cnt is_done (set_nth i (WHold x) (workers s)) = cnt is_done (workers s)) by lia. rewrite Cd'.
      repeat split; fin.
      destruct (fetcher s); try assumption; destruct IF as ((_ & _ & X & _) & _); congruence.
    + wfacts W WEnd. unfold upd_w, Inv, fetch_ok, quiet in *. proj. rewrite length_set_nth. simpl in IK, ISh, ICs.
      apply Nat.eqb_eq in ISh.
      assert (Cd' : cnt is_done (set_nth i WEnd (workers s)) = cnt is_done (workers s)) by lia. rewrite Cd'.
      repeat split; fin.
      * apply csome0_shape. exact ISh.
      * destruct (fetcher s); try assumption; destruct IF as ((_ & _ & X & _) & _); congruence.
  - (* worker put *)
    destruct (nth_error (workers s) i) as [w0|] eqn:W; [|discriminate].
    destruct w0; try discriminate; injection F as <-.
    + wfacts W WIdle. pose proof (cnt_total (set_nth i WIdle (workers s))) as TOT'. rewrite length_set_nth in TOT'.
      unfold upd_w, Inv, fetch_ok, quiet in *. proj. rewrite length_set_nth, ?cnone_app. simpl.
      assert (Cd' : cnt is_done (set_nth i WIdle (workers s)) = cnt is_done (workers s)) by lia. rewrite Cd' in *.
      repeat split; fin.
      destruct (fetcher s); try (destruct IF as (A & B & C & D); repeat split; [assumption|lia|assumption|assumption]);
        destruct IF as ((_ & _ & _ & _ & X) & _); lia.
    + wfacts W WDone. pose proof (cnt_total (set_nth i WDone (workers s))) as TOT'. rewrite length_set_nth in TOT'.
      unfold upd_w, Inv, fetch_ok, quiet in *. proj. rewrite length_set_nth, ?cnone_app. simpl.
      repeat split; fin.
      destruct (fetcher s); try (destruct IF as (A & B & C & D); repeat split; [assumption|lia|assumption|assumption]);
        destruct IF as ((_ & _ & _ & _ & X) & _); lia.
  - (* fetcher get *)
    unfold fetch_ok in IF. destruct (fetcher s) as [e|e y| |] eqn:FE; try discriminate.
    destruct (q_out s) as [|[x|] rest] eqn:Q; [destruct e as [|[|e]]; discriminate| |].
    + destruct e as [|[|e0]]; [lia| |]; injection F as <-; unfold Inv, fetch_ok, quiet in *; proj; simpl in IF;
        (repeat split; fin); intros H; apply (ends_none_tail (Some x) rest); apply IEn; exact H.
    + destruct IF as (E1 & E2 & E3 & E4). simpl in E2.
      pose proof (cnt_le is_done (workers s)) as DL.
      destruct e as [|[|e]]; [discriminate| |]; injection F as <-; unfold Inv, fetch_ok, quiet in *; proj.
      * assert (D : cnt is_done (workers s) = n) by lia.
        assert (R : rest = []).
        { apply ends_none_nonone; [|lia]. apply (ends_none_tail None rest). apply IEn. exact D. }
        subst rest.
        assert (QI : q_in s = []) by (apply c_zero_nil; [lia|apply ICs; lia]).
        repeat split; fin.
        apply IR. lia.
      * repeat split; fin.
        intros H. apply (ends_none_tail None rest). apply IEn. exact H.
  - (* fetcher put *)
    unfold fetch_ok in IF. destruct (fetcher s) as [e|e y| |] eqn:FE; try discriminate; injection F as <-;
      unfold Inv, fetch_ok, quiet in *; proj; rewrite cnone_app; simpl.
    + destruct IF as (A & B & C & D). repeat split; fin.
    + destruct IF as (A & C & D). rewrite D. repeat split; fin.
  - (* collector *)
    unfold fetch_ok in IF. destruct (c_done s) eqn:CD; [discriminate|].
    destruct (q_int s) as [|[x|] rest] eqn:Q; try discriminate; injection F as <-;
      unfold Inv, fetch_ok, quiet in *; proj.
    + repeat split; fin.
      destruct (fetcher s); simpl in IF |- *; destruct IF as (A & B); repeat split; fin;
        apply (ends_none_tail (Some x) rest); tauto.
    + repeat split; fin.
      destruct (fetcher s); simpl in IF |- *; try (exfalso; lia).
      destruct IF as (A & B & C). split; [exact A|].
      apply ends_none_nonone; [apply (ends_none_tail None rest); exact C|lia].
Qed.

Theorem run_preserves_inv n ls : forall s s', 1 <= n -> Inv n s -> run s ls = Some s' -> Inv n s'.
Proof.
  induction ls as [|l ls IH]; simpl; intros s s' Hn I H.
  - injection H as <-. exact I.
  - destruct (fire s l) as [s1|] eqn:F; [|discriminate]. apply (IH s1 s' Hn); [|exact H].
    apply (fire_preserves_inv n s l s1 Hn I F).
Qed.

Theorem reachable_inv n input ls s : 1 <= n -> run (init n input) ls = Some s -> Inv n s.
Proof. intros Hn H. apply (run_preserves_inv n ls _ _ Hn (inv_init n input Hn) H). Qed.

(* ---------- consequences ---------- *)
(* when the collector has seen the end marker, nothing is left anywhere *)
Lemma done_all_delivered n s : Inv n s -> c_done s = true -> rows_of s = delivered s.
Proof.
  intros (IL & _ & _ & _ & _ & _ & _ & IF) CD. unfold fetch_ok in IF.
  destruct (fetcher s) eqn:FE; try (destruct IF as (_ & _ & _ & X); congruence); try (destruct IF as (_ & _ & X); congruence).
  destruct IF as ((P & _ & QI & QO & D) & QT). rewrite CD in QT.
  unfold rows_of. rewrite P, QI, QO, QT, FE. rewrite all_done_held by congruence. reflexivity.
Qed.

Lemma done_terminal n s : Inv n s -> c_done s = true -> forall l, fire s l = None.
Proof.
  intros (IL & _ & _ & _ & _ & _ & _ & IF) CD l. unfold fetch_ok in IF.
  destruct (fetcher s) eqn:FE; try (destruct IF as (_ & _ & _ & X); congruence); try (destruct IF as (_ & _ & X); congruence).
  destruct IF as ((P & M & QI & QO & D) & QT).
  destruct l; simpl; rewrite ?P, ?M, ?QI, ?QO, ?FE, ?CD; try reflexivity.
  - destruct (nth_error (workers s) i) as [w|]; [destruct w|]; reflexivity.
  - destruct (nth_error (workers s) i) as [w|] eqn:W; [|reflexivity].
    assert (X : is_done w = true) by (apply (cnt_all is_done (workers s) (ltac:(congruence)) i w W)).
    destruct w; try discriminate; reflexivity.
Qed.

Lemma in_all_labels_wget n i : i < n -> In (LWGet i) (all_labels n).
Proof.
  intros H. unfold all_labels. apply in_or_app. right. apply in_or_app. left. apply in_map. apply in_seq. lia.
Qed.
Lemma in_all_labels_wput n i : i < n -> In (LWPut i) (all_labels n).
Proof.
  intros H. unfold all_labels. apply in_or_app. right. apply in_or_app. right. apply in_map. apply in_seq. lia.
Qed.

(* progress: as long as the collector has not seen the end marker, some activity can take a step *)
Theorem progress n s : 1 <= n -> Inv n s -> c_done s = false ->
  exists l s', In l (all_labels n) /\ fire s l = Some s'.
Proof.
  intros Hn (IL & IM & IR & IK & ISh & ICs & IEn & IF) CD.
  pose proof (cnt_total (workers s)) as TOT.
  destruct (p_rem s) as [|x rest] eqn:P.
  2:{ exists LProd. simpl. rewrite P. destruct (isel x); eexists; (split; [left; reflexivity|reflexivity]). }
  destruct (p_marks s) as [|m] eqn:M.
  2:{ exists LProd. simpl. rewrite P, M. eexists. split; [left; reflexivity|reflexivity]. }
  destruct (Nat.eq_dec (cnt is_hold (workers s)) 0) as [H0|H0].
  2:{ destruct (cnt_pos_nth is_hold (workers s) (ltac:(lia))) as (i & w & L & N & PW).
      destruct w; try discriminate. exists (LWPut i). simpl. rewrite N. eexists. split; [apply in_all_labels_wput; lia|reflexivity]. }
  destruct (Nat.eq_dec (cnt is_end (workers s)) 0) as [E0|E0].
  2:{ destruct (cnt_pos_nth is_end (workers s) (ltac:(lia))) as (i & w & L & N & PW).
      destruct w; try discriminate. exists (LWPut i). simpl. rewrite N. eexists. split; [apply in_all_labels_wput; lia|reflexivity]. }
  destruct (q_in s) as [|o rest] eqn:Q.
  2:{ destruct (Nat.eq_dec (cnt is_idle (workers s)) 0) as [I0|I0].
      - exfalso. assert (D : cnt is_done (workers s) = n) by lia.
        assert (X : o :: rest = []) by (apply c_zero_nil; [lia|apply ICs; lia]). discriminate.
      - destruct (cnt_pos_nth is_idle (workers s) (ltac:(lia))) as (i & w & L & N & PW).
        destruct w; try discriminate. exists (LWGet i). simpl. rewrite N, Q.
        destruct o; eexists; (split; [apply in_all_labels_wget; lia|reflexivity]). }
  simpl in IK. assert (D : cnt is_done (workers s) = n) by lia.
  unfold fetch_ok in IF. destruct (fetcher s) as [e|e y| |] eqn:FE.
  - destruct IF as (E1 & E2 & _ & _).
    destruct (q_out s) as [|o rest] eqn:QO; [simpl in E2; lia|].
    exists LFGet. simpl. rewrite FE, QO.
    destruct e as [|[|e]]; [lia| |]; destruct o as [x|]; eexists; (split; [right; left; reflexivity|reflexivity]).
  - exists LFPut. simpl. rewrite FE. eexists. split; [right; right; left; reflexivity|reflexivity].
  - exists LFPut. simpl. rewrite FE. eexists. split; [right; right; left; reflexivity|reflexivity].
  - destruct IF as (_ & QT). rewrite CD in QT. destruct QT as (QT & _).
    destruct (q_int s) as [|o rest] eqn:QI; [simpl in QT; lia|].
    exists LCol. simpl. rewrite CD, QI. destruct o; eexists; (split; [right; right; right; left; reflexivity|reflexivity]).
Qed.

(* ---------- the statements about parallelize ---------- *)
Theorem stuck_is_complete n input ls s : 1 <= n ->
  run (init n input) ls = Some s -> enabled s = [] ->
  c_done s = true /\ Permutation (map iid (delivered s)) (map iid input).
Proof.
  intros Hn R E. pose proof (reachable_inv n input ls s Hn R) as I.
  assert (CD : c_done s = true).
  { destruct (c_done s) eqn:CD; [reflexivity|]. exfalso.
    destruct (progress n s Hn I CD) as (l & s' & L & F).
    assert (X : In l (enabled s)).
    { unfold enabled. apply filter_In. destruct I as (IL & _). rewrite IL. split; [exact L|]. rewrite F. reflexivity. }
    rewrite E in X. exact X. }
  split; [exact CD|]. rewrite <- (done_all_delivered n s I CD). apply (reachable_rows_are_input n input ls s R).
Qed.

Theorem done_is_complete_and_terminal n input ls s : 1 <= n ->
  run (init n input) ls = Some s -> c_done s = true ->
  Permutation (map iid (delivered s)) (map iid input) /\ (forall l, fire s l = None).
Proof.
  intros Hn R CD. pose proof (reachable_inv n input ls s Hn R) as I. split.
  - rewrite <- (done_all_delivered n s I CD). apply (reachable_rows_are_input n input ls s R).
  - apply (done_terminal n s I CD).
Qed.

(* until then a step is always possible: no deadlock *)
Theorem no_deadlock n input ls s : 1 <= n ->
  run (init n input) ls = Some s -> c_done s = false -> enabled s <> [].
Proof.
  intros Hn R CD E. destruct (stuck_is_complete n input ls s Hn R E) as [X _]. congruence.
Qed.
